import SdcModel.PeriodicStore
import SdcModel.Basic.Io
import SdcModel.Reports
/-! line-protocol driver for the provider MDIB model (used by drv_c02, drv_c03, drv_c04) -/
namespace Sdc.MdibDriver
open Sdc Sdc.Mdib

inductive Open
  | none
  | s (kind : Kind) (calls : List SCall)
  | c (calls : List CCall)
  | d (calls : List DCall)

structure St where
  t : Tables := {}
  cur : Open := .none
  last : TxResult := {}

def optNat (s : String) : Option (Option Nat) := if s == "-" then some none else s.toNat?.map some
def showOpt : Option Nat → String | none => "-" | some n => toString n
def kindOf : String → Option Kind
  | "metric" => some .metric | "rt" => some .rt | "alert" => some .alert | "component" => some .component
  | "operational" => some .operational | "context" => some .context | _ => none
def kindStr : Kind → String
  | .metric => "metric" | .rt => "rt" | .alert => "alert" | .component => "component"
  | .operational => "operational" | .context => "context"
def assocOf : String → Option Assoc
  | "no" => some .no | "pre" => some .pre | "assoc" => some .assoc | "dis" => some .dis | _ => none
def assocStr : Assoc → String | .no => "no" | .pre => "pre" | .assoc => "assoc" | .dis => "dis"
def boolOf : String → Option Bool | "1" => some true | "0" => some false | _ => none

def sortBy {α} (key : α → Nat) (l : List α) : List α := (l.toArray.qsort (fun a b => key a < key b)).toList

def showD (d : Descr) : String := s!"{d.handle},{showOpt d.parent},{kindStr d.kind},{d.ver},{d.body},{showOpt d.mds}"
def showS (s : SState) : String := s!"{s.dh},{s.dv},{s.sv},{kindStr s.kind},{s.body}"
def showC (c : CState) : String :=
  s!"{c.h},{c.dh},{c.dv},{c.sv},{c.body},{assocStr c.assoc},{showOpt c.bindV},{showOpt c.unbindV},{showOpt c.bindT},{showOpt c.unbindT}"
def showSaved (l : List (Handle × Nat)) : String := ";".intercalate ((sortBy (·.1) l).map fun p => s!"{p.1}:{p.2}")

def dump (t : Tables) : String :=
  s!"ver={t.ver}|D " ++ ";".intercalate ((sortBy (·.handle) t.descrs).map showD)
  ++ "|S " ++ ";".intercalate ((sortBy (·.dh) t.states).map showS)
  ++ "|C " ++ ";".intercalate ((sortBy (·.h) t.ctx).map showC)
  ++ "|dS " ++ showSaved t.dSaved ++ "|sS " ++ showSaved t.sSaved ++ "|cS " ++ showSaved t.cSaved

/-- the transaction result in emission order (order matters for the reports) -/
def showRes (r : TxResult) : String :=
  "U " ++ ";".intercalate (r.descrUpdated.map showD) ++ "|N " ++ ";".intercalate (r.descrCreated.map showD)
  ++ "|X " ++ ";".intercalate (r.descrDeleted.map showD)
  ++ "|metric " ++ ";".intercalate (r.metric.map showS) ++ "|alert " ++ ";".intercalate (r.alert.map showS)
  ++ "|comp " ++ ";".intercalate (r.comp.map showS) ++ "|ctx " ++ ";".intercalate (r.ctx.map showC)
  ++ "|op " ++ ";".intercalate (r.op.map showS) ++ "|rt " ++ ";".intercalate (r.rt.map showS)

def modStr : ModType → String | .create => "Crt" | .update => "Upt" | .delete => "Del"
def rkStr : ReportKind → String
  | .metric => "metric" | .alert => "alert" | .component => "component" | .context => "context"
  | .operational => "operational" | .waveform => "waveform" | .description => "description"
def showVg (vg : VersionGroup) : String := s!"{vg.ver},{vg.seq},{showOpt vg.inst}"
def showRep : Rep → String
  | .descr vg parts => s!"DESCR {showVg vg} :: " ++ " && ".intercalate (parts.map fun p =>
      s!"{modStr p.mod},{showOpt p.parent},{showOpt p.mds},{showD p.descr}[" ++ ";".intercalate (p.states.map showS) ++ "]["
        ++ ";".intercalate (p.cstates.map showC) ++ "]")
  | .states k vg parts => s!"STATES {rkStr k} {showVg vg} :: " ++ " && ".intercalate (parts.map fun p =>
      s!"{p.1}=[" ++ ";".intercalate (p.2.map showS) ++ "]")
  | .ctx vg parts => s!"CTX {showVg vg} :: " ++ " && ".intercalate (parts.map fun p =>
      s!"{p.1}=[" ++ ";".intercalate (p.2.map showC) ++ "]")

def outcomeStr : Outcome → String
  | .committed => "committed" | .empty => "empty" | .aborted => "aborted" | .rejected => "rejected"
  | .commitFailed => "commit-failed"

def parseSCall : List String → Option SCall
  | ["get", h] => h.toNat?.map .get
  | ["unget", h] => h.toNat?.map .unget
  | ["setBody", h, b] => do pure (.setBody (← h.toNat?) (← b.toNat?))
  | ["write", h, k, sv, b, m] => do pure (.write (← h.toNat?) (← kindOf k) (← sv.toNat?) (← b.toNat?) (← boolOf m))
  | _ => none

def parseCCall : List String → Option CCall
  | ["get", h] => h.toNat?.map .get
  | ["mk", dh, h, e, a, b, now] => do
      pure (.mk (← dh.toNat?) (← h.toNat?) (← boolOf e) (← boolOf a) (← b.toNat?) (← now.toNat?))
  | ["setBody", h, b] => do pure (.setBody (← h.toNat?) (← b.toNat?))
  | ["setAssoc", h, a] => do pure (.setAssoc (← h.toNat?) (← assocOf a))
  | ["disassociateAll", dh, ig, now] => do pure (.disassociateAll (← dh.toNat?) (← optNat ig) (← now.toNat?))
  | ["del", h] => h.toNat?.map .del
  | _ => none

def parseDCall : List String → Option DCall
  | ["addDescr", h, p, k, ver, b, mds, st] => do
      pure (.addDescr ⟨← h.toNat?, ← optNat p, ← kindOf k, ← ver.toNat?, ← b.toNat?, ← optNat mds⟩ (← optNat st))
  | ["removeDescr", h] => h.toNat?.map .removeDescr
  | ["getDescr", h] => h.toNat?.map .getDescr
  | ["getState", h] => h.toNat?.map .getState
  | ["setDescrBody", h, b] => do pure (.setDescrBody (← h.toNat?) (← b.toNat?))
  | ["setStateBody", h, b] => do pure (.setStateBody (← h.toNat?) (← b.toNat?))
  | "writeEntity" :: h :: p :: k :: ver :: b :: mds :: "single" :: rest => do
      let d : Descr := ⟨← h.toNat?, ← optNat p, ← kindOf k, ← ver.toNat?, ← b.toNat?, ← optNat mds⟩
      match rest with
      | [] => pure (.writeEntity d none none)
      | [sv, sb] => pure (.writeEntity d (some (← sv.toNat?, ← sb.toNat?)) none)
      | _ => none
  | "writeEntity" :: h :: p :: k :: ver :: b :: mds :: "multi" :: rest => do
      let d : Descr := ⟨← h.toNat?, ← optNat p, ← kindOf k, ← ver.toNat?, ← b.toNat?, ← optNat mds⟩
      let cs ← rest.mapM (fun w => match w.splitOn "," with
        | [ch, dh, dv, sv, cb, a, bv, uv, bt, ut] => do
            pure (CState.mk (← ch.toNat?) (← dh.toNat?) (← dv.toNat?) (← sv.toNat?) (← cb.toNat?) (← assocOf a)
                    (← optNat bv) (← optNat uv) (← optNat bt) (← optNat ut))
        | _ => none)
      pure (.writeEntity d none (some cs))
  | _ => none

def finish (st : St) (catchE raiseE : Bool) : St × String :=
  let (t', r, o) := match st.cur with
    | .none => (st.t, ({} : TxResult), Outcome.empty)
    | .s k cs => runS st.t { kind := k, calls := cs, catchErrors := catchE, raiseAtEnd := raiseE }
    | .c cs => runC st.t { calls := cs, catchErrors := catchE, raiseAtEnd := raiseE }
    | .d cs => runD st.t { calls := cs, catchErrors := catchE, raiseAtEnd := raiseE }
  ({ t := t', cur := .none, last := r }, outcomeStr o ++ " " ++ showRes r)

def step (st : St) (line : String) : St × String :=
  match Io.words line with
  | ["reset"] => ({}, "ok")
  | ["ver", n] => match n.toNat? with
    | some v => ({ st with t := { st.t with ver := v } }, "ok")
    | none => (st, "bad-op")
  | ["d", h, p, k, ver, b, mds] =>
    match (do pure (Descr.mk (← h.toNat?) (← optNat p) (← kindOf k) (← ver.toNat?) (← b.toNat?) (← optNat mds)) : Option Descr) with
    | some d => ({ st with t := { st.t with descrs := st.t.descrs ++ [d] } }, "ok")
    | none => (st, "bad-op")
  | ["s", dh, dv, sv, k, b] =>
    match (do pure (SState.mk (← dh.toNat?) (← dv.toNat?) (← sv.toNat?) (← kindOf k) (← b.toNat?)) : Option SState) with
    | some s => ({ st with t := { st.t with states := st.t.states ++ [s] } }, "ok")
    | none => (st, "bad-op")
  | ["c", h, dh, dv, sv, b, a, bv, uv, bt, ut] =>
    match (do pure (CState.mk (← h.toNat?) (← dh.toNat?) (← dv.toNat?) (← sv.toNat?) (← b.toNat?) (← assocOf a)
                      (← optNat bv) (← optNat uv) (← optNat bt) (← optNat ut)) : Option CState) with
    | some c => ({ st with t := { st.t with ctx := st.t.ctx ++ [c] } }, "ok")
    | none => (st, "bad-op")
  | ["begin", "S", k] => match kindOf k with
    | some k => ({ st with cur := .s k [] }, "ok")
    | none => (st, "bad-op")
  | ["begin", "C"] => ({ st with cur := .c [] }, "ok")
  | ["begin", "D"] => ({ st with cur := .d [] }, "ok")
  | ["end", c, r] => match boolOf c, boolOf r with
    | some c, some r => finish st c r
    | _, _ => (st, "bad-op")
  | ["dump"] => (st, dump st.t)
  | ["pstore", evs] =>
    -- periodic store model: events `p<n>` (a commit stores n) and `c` (the collector's next block), from the empty store
    let parse (w : String) : Option PeriodicStore.Ev :=
      if w == "c" then some .col
      else if w.startsWith "p" then (w.drop 1).toNat?.map .put else none
    match (evs.splitOn ",").mapM parse with
    | some es =>
      let r := PeriodicStore.run PeriodicStore.good {} es
      let sh (l : List Nat) := " ".intercalate (l.map toString)
      (st, sh r.out ++ "|" ++ sh r.tmp ++ "|" ++ sh r.store)
    | none => (st, "bad-op")
  | ["reports", seq, inst] => match seq.toNat?, optNat inst with
    | some q, some i => (st, " ## ".intercalate ((mkReports st.t ⟨st.t.ver, q, i⟩ st.last).map showRep))
    | _, _ => (st, "bad-op")
  | ws =>
    match st.cur with
    | .none => (st, "bad-op")
    | .s k cs => match parseSCall ws with
      | some c => ({ st with cur := .s k (cs ++ [c]) }, "ok")
      | none => (st, "bad-op")
    | .c cs => match parseCCall ws with
      | some c => ({ st with cur := .c (cs ++ [c]) }, "ok")
      | none => (st, "bad-op")
    | .d cs => match parseDCall ws with
      | some c => ({ st with cur := .d (cs ++ [c]) }, "ok")
      | none => (st, "bad-op")

end Sdc.MdibDriver
