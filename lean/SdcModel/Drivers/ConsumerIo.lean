import SdcModel.Basic.Io
import SdcModel.Consumer
/-!
# line protocol of the consumer model driver (`drv_c06`, `drv_c01`)

All arguments are natural numbers (handles, sequence ids and bodies are interned by the harness).
`opt`: 0 = none, n+1 = some n.  kind: 0 metric 1 rt 2 alert 3 component 4 operational 5 context.
report kind: 0 metric 1 alert 2 component 3 context 4 operational 5 waveform 6 description.

    S  := dh dv sv kind body                 C := h dh dv sv body          D := handle parent(opt) kind ver body
    P  := mod(0 create 1 update 2 delete) D nS S* nC C*
    rep rk ver seq inst(opt) nS S* nC C* nP P*
    begin
    fin R                                    (second half of the pre-check of a report whose first half saw `initializing`)
    end ver seq inst(opt) nD D* nS S* nC C* nC2 C*
    reset
    dump                                     (complete content: delta against empty tables)
    desc CORE CORE nR R*                     (C01: do the reports describe the change p -> p'?  CORE := ver seq inst nD D* nS S* nC C*,
                                              R := the arguments of `rep`)

Answer: `<mode> <ver> <seq> <inst> | <notifications> | <delta of the three tables against the state before>`.
-/
namespace Sdc.ConsumerIo
open Sdc.Mdib Sdc.Consumer

abbrev P (α : Type) := List Nat → Option (α × List Nat)

def pNat : P Nat
  | n :: r => some (n, r)
  | [] => none

def pOpt : P (Option Nat)
  | 0 :: r => some (none, r)
  | (n + 1) :: r => some (some n, r)
  | [] => none

def kindOf : Nat → Option Kind
  | 0 => some .metric | 1 => some .rt | 2 => some .alert | 3 => some .component | 4 => some .operational
  | 5 => some .context | _ => none

def kindCode : Kind → Nat
  | .metric => 0 | .rt => 1 | .alert => 2 | .component => 3 | .operational => 4 | .context => 5

def rkOf : Nat → Option ReportKind
  | 0 => some .metric | 1 => some .alert | 2 => some .component | 3 => some .context | 4 => some .operational
  | 5 => some .waveform | 6 => some .description | _ => none

def rkCode : ReportKind → Nat
  | .metric => 0 | .alert => 1 | .component => 2 | .context => 3 | .operational => 4 | .waveform => 5
  | .description => 6

def pS : P SState
  | dh :: dv :: sv :: k :: b :: r => (kindOf k).map fun k => (⟨dh, dv, sv, k, b⟩, r)
  | _ => none

def pC : P CState
  | h :: dh :: dv :: sv :: b :: r => some (⟨h, dh, dv, sv, b, .no, none, none, none, none⟩, r)
  | _ => none

def pD : P Descr
  | h :: 0 :: k :: v :: b :: r => (kindOf k).map fun k => (⟨h, none, k, v, b, none⟩, r)
  | h :: (p + 1) :: k :: v :: b :: r => (kindOf k).map fun k => (⟨h, some p, k, v, b, none⟩, r)
  | _ => none

/-- `n` items -/
def pMany {α : Type} (p : P α) : Nat → P (List α)
  | 0, r => some ([], r)
  | n + 1, r => do
    let (x, r) ← p r
    let (xs, r) ← pMany p n r
    pure (x :: xs, r)

def pList {α : Type} (p : P α) : P (List α) := fun r => do
  let (n, r) ← pNat r
  if n > r.length then none else pMany p n r

def pPart : P DescrPart := fun r => do
  let (m, r) ← pNat r
  let m ← (match m with | 0 => some ModType.create | 1 => some .update | 2 => some .delete | _ => none)
  let (d, r) ← pD r
  let (ss, r) ← pList pS r
  let (cs, r) ← pList pC r
  pure (⟨m, d, ss, cs⟩, r)

def pReport : P Report := fun r => do
  let (k, r) ← pNat r
  let k ← rkOf k
  let (ver, r) ← pNat r
  let (seq, r) ← pNat r
  let (inst, r) ← pOpt r
  let (ss, r) ← pList pS r
  let (cs, r) ← pList pC r
  let (ps, r) ← pList pPart r
  pure (⟨k, ⟨ver, seq, inst⟩, ss, cs, ps⟩, r)

def pEnd : P (Snapshot × List CState) := fun r => do
  let (ver, r) ← pNat r
  let (seq, r) ← pNat r
  let (inst, r) ← pOpt r
  let (ds, r) ← pList pD r
  let (ss, r) ← pList pS r
  let (cs, r) ← pList pC r
  let (c2, r) ← pList pC r
  pure ((⟨⟨ver, seq, inst⟩, ds, ss, cs⟩, c2), r)

def pCore : P Core := fun r => do
  let (ver, r) ← pNat r
  let (seq, r) ← pNat r
  let (inst, r) ← pOpt r
  let (ds, r) ← pList pD r
  let (ss, r) ← pList pS r
  let (cs, r) ← pList pC r
  pure (⟨⟨ver, seq, inst⟩, ⟨ds, ss, cs⟩⟩, r)

def pDescribe : P (Core × Core × List Report) := fun r => do
  let (p, r) ← pCore r
  let (p', r) ← pCore r
  let (rs, r) ← pList pReport r
  pure ((p, p', rs), r)

def failingClauses (c : DescribeClauses) : List String :=
  [("nonempty", c.nonempty), ("vg", c.vg), ("ids", c.ids), ("wf", c.wf),
   ("partsDistinct", c.partsDistinct), ("created", c.created), ("updated", c.updated), ("deleted", c.deleted),
   ("descrComplete", c.descrComplete), ("descrRemoved", c.descrRemoved), ("flat", c.flat),
   ("stateSound", c.stateSound), ("stateNewer", c.stateNewer), ("stateComplete", c.stateComplete),
   ("stateRemoved", c.stateRemoved), ("deletedStatesGone", c.deletedStatesGone), ("cstateSound", c.cstateSound),
   ("cstateNewer", c.cstateNewer), ("cstateComplete", c.cstateComplete), ("cstateRemoved", c.cstateRemoved), ("cstateStable", c.cstateStable),
   ("ctxUpdateLists", c.ctxUpdateLists)].filterMap (fun (n, b) => if b then none else some n)

/-! ### canonical output -/

def sortNat (l : List Nat) : List Nat := l.mergeSort (· ≤ ·)

def dedupSorted : List Nat → List Nat
  | a :: b :: r => if a == b then dedupSorted (b :: r) else a :: dedupSorted (b :: r)
  | l => l

def natSet (l : List Nat) : String := ",".intercalate ((dedupSorted (sortNat l)).map toString)

def optStr : Option Nat → String
  | none => "-"
  | some n => toString n

def showD (d : Descr) : String := s!"{d.handle}/{optStr d.parent}/{kindCode d.kind}/{d.ver}/{d.body}"
def showS (s : SState) : String := s!"{s.dh}/{s.dv}/{s.sv}/{kindCode s.kind}/{s.body}"
def showC (s : CState) : String := s!"{s.h}/{s.dh}/{s.dv}/{s.sv}/{s.body}"

/-- entries of `new` that are not (by value) in `old`, and keys of `old` without an entry in `new`; sorted by key -/
def delta {α : Type} [DecidableEq α] (key : α → Nat) (shw : α → String) (old new : List α) : String × String :=
  let added := (new.filter (fun x => !old.contains x)).mergeSort (fun a b => key a ≤ key b)
  let newKeys := new.map key
  let removed := (old.map key).filter (fun k => !newKeys.contains k)
  (" ".intercalate (added.map shw), natSet removed)

def showNotif (n : Notif) : String :=
  s!"k{rkCode n.kind}:h={natSet n.handles}:c={natSet n.created}:u={natSet n.updated}:d={natSet n.deleted}:x={if n.idChanged then 1 else 0}:e={if n.err then 1 else 0}"

def showMode (s : St) : String :=
  match s.mode with
  | .invalid => s!"inv {s.core.vg.ver} {s.core.vg.seq} {optStr s.core.vg.inst}"
  | .initializing => "ing - - -"
  | .initialized => s!"ok {s.core.vg.ver} {s.core.vg.seq} {optStr s.core.vg.inst}"

def answer (old new : St) (ns : List Notif) : String :=
  let d := delta (·.handle) showD old.core.tabs.descrs new.core.tabs.descrs
  let s := delta (·.dh) showS old.core.tabs.states new.core.tabs.states
  let c := delta (·.h) showC old.core.tabs.cstates new.core.tabs.cstates
  s!"{showMode new} b={new.buf.length} | {";".intercalate (ns.map showNotif)} | D+ {d.1} D- {d.2} S+ {s.1} S- {s.2} C+ {c.1} C- {c.2}"

def stepLine (st : St) (line : String) : St × String :=
  match Io.words line with
  | ["reset"] => (St.init, "ok")
  | ["dump"] => (st, answer { st with core := ⟨st.core.vg, {}⟩ } st [])
  | "desc" :: rest =>
    match Io.parseNats rest with
    | some ns =>
      match pDescribe ns with
      | some ((p, p', rs), []) =>
        let c := describeClauses p p' rs
        (st, if c.all then "describes" else "not: " ++ " ".intercalate (failingClauses c))
      | _ => (st, "bad-op")
    | none => (st, "bad-op")
  | ["begin"] =>
    let r := step st .reloadBegin
    (r.1, answer st r.1 r.2)
  | "rep" :: rest =>
    match Io.parseNats rest with
    | some ns =>
      match pReport ns with
      | some (rep, []) =>
        let r := step st (.report rep)
        (r.1, answer st r.1 r.2)
      | _ => (st, "bad-op")
    | none => (st, "bad-op")
  | "fin" :: rest =>
    match Io.parseNats rest with
    | some ns =>
      match pReport ns with
      | some (rep, []) =>
        let r := finishBuffered st rep
        (r.1, answer st r.1 r.2)
      | _ => (st, "bad-op")
    | none => (st, "bad-op")
  | "end" :: rest =>
    match Io.parseNats rest with
    | some ns =>
      match pEnd ns with
      | some ((snap, c2), []) =>
        let r := step st (.reloadEnd snap c2)
        (r.1, answer st r.1 r.2)
      | _ => (st, "bad-op")
    | none => (st, "bad-op")
  | _ => (st, "bad-op")

end Sdc.ConsumerIo
