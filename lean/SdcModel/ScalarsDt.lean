import SdcModel.Scalars
/-!
# C18 — `isoduration.parse_date_time` / `XsdDateInformation.__str__` (xsd:gYear, gYearMonth, date, dateTime)

The regular expression `__DATETIME_PATTERN__` (with `re.ASCII`) is transcribed as a recogniser with the same
priorities as the backtracking matcher: every optional group is tried first and abandoned when the rest of the
string cannot be matched (`2020-05:00` is year 2020 with time zone -05:00, not month 5).
The float of the seconds field is kept as its decimal text `(integer seconds, fraction digits)`; the conversions
`float(text)` and `format(Decimal(repr(x)), 'f')` happen at the boundary (correspondence: `floatOfDecimal`).
-/
namespace Sdc.Scalars

structure DateInfo where
  year : Int
  month : Option Nat
  day : Option Nat
  /-- hour, minute, integer seconds, fraction digits of the seconds -/
  time : Option (Nat × Nat × Nat × Str)
  eod : Bool
  /-- utc offset in minutes (`Z` = 0) -/
  tz : Option Int
deriving DecidableEq, Repr

/-- two ASCII digits -/
def take2 (s : Str) : Option (Nat × Str) :=
  match s with
  | a :: b :: r => if isDigit a ∧ isDigit b then some (digitVal a * 10 + digitVal b, r) else none
  | _ => none

def pad2 (n : Nat) : Str := [48 + n / 10, 48 + n % 10]

/-- `(Z|[+-](0\d|1[0-4]):[0-5]\d)?$` incl. the check of `_parse_tz` (14:xx only with xx = 00) -/
def tzEnd (s : Str) : Option (Option Int) :=
  match s with
  | [] => some none
  | c :: r =>
    if c = 90 then (if r.isEmpty then some (some 0) else none)
    else if c = 43 ∨ c = 45 then
      match take2 r with
      | some (hh, r1) =>
        match r1 with
        | c1 :: r2 =>
          match take2 r2 with
          | some (mm, r3) =>
            if c1 = 58 ∧ r3.isEmpty ∧ hh ≤ 14 ∧ mm ≤ 59 ∧ ¬ (hh = 14 ∧ mm ≠ 0) then
              some (some (if c = 45 then - ((hh * 60 + mm : Nat) : Int) else ((hh * 60 + mm : Nat) : Int)))
            else none
          | none => none
        | [] => none
      | none => none
    else none

/-- optional `(\.\d+)?`: fraction digits and rest -/
def takeFrac (r5 : Str) : Str × Str :=
  match r5 with
  | d :: r6 => if d = 46 ∧ ¬ (r6.takeWhile isDigit).isEmpty then (r6.takeWhile isDigit, r6.dropWhile isDigit) else ([], r5)
  | [] => ([], r5)

/-- `T(hh:mm:ss(\.\d+)?|24:00:00(\.0+)?)` : `(time, eod, rest)` -/
def takeTime (s : Str) : Option (Option (Nat × Nat × Nat × Str) × Bool × Str) :=
  match s with
  | t :: r =>
    if t ≠ 84 then none else
    match take2 r with
    | some (hh, r1) =>
      match r1 with
      | c1 :: r2 =>
        match take2 r2 with
        | some (mm, r3) =>
          match r3 with
          | c2 :: r4 =>
            match take2 r4 with
            | some (ss, r5) =>
              if c1 ≠ 58 ∨ c2 ≠ 58 then none else
              let fr := takeFrac r5
              if hh ≤ 23 ∧ mm ≤ 59 ∧ ss ≤ 59 then some (some (hh, mm, ss, fr.1), false, fr.2)
              else if hh = 24 ∧ mm = 0 ∧ ss = 0 ∧ fr.1.all (· == 48) then some (none, true, fr.2)
              else none
            | none => none
          | [] => none
        | none => none
      | [] => none
    | none => none
  | [] => none

/-- behind the day: optional time, then time zone and end -/
def afterDay (s : Str) : Option (Option (Nat × Nat × Nat × Str) × Bool × Option Int) :=
  ((takeTime s).bind fun x => (tzEnd x.2.2).map fun tz => (x.1, x.2.1, tz)).or
    ((tzEnd s).map fun tz => (none, false, tz))

/-- `-DD` with `DD` in 01..31 -/
def takeField (lo hi : Nat) (s : Str) : Option (Nat × Str) :=
  match s with
  | c :: r =>
    if c ≠ 45 then none else
    match take2 r with
    | some (v, r1) => if lo ≤ v ∧ v ≤ hi then some (v, r1) else none
    | none => none
  | [] => none

/-- behind the month: optional day (…), then time zone and end -/
def afterMonth (s : Str) : Option (Option Nat × Option (Nat × Nat × Nat × Str) × Bool × Option Int) :=
  ((takeField 1 31 s).bind fun x => (afterDay x.2).map fun y => (some x.1, y)).or
    ((tzEnd s).map fun tz => (none, none, false, tz))

/-- behind the year: optional month (…), then time zone and end -/
def afterYear (s : Str) : Option (Option Nat × Option Nat × Option (Nat × Nat × Nat × Str) × Bool × Option Int) :=
  ((takeField 1 12 s).bind fun x => (afterMonth x.2).map fun y => (some x.1, y)).or
    ((tzEnd s).map fun tz => (none, none, none, false, tz))

/-- `-?([1-9]\d\d\d+|0\d\d\d)` : shape of the year digits -/
def yearShape (ds : Str) : Bool :=
  match ds with
  | c :: _ => if c = 48 then ds.length == 4 else decide (4 ≤ ds.length)
  | [] => false

/-- `parse_date_time` (without the `float()` of the seconds) -/
def parseDateTime (s : Str) : Except Err DateInfo :=
  let s := dropNewline s
  let neg := (match s with | c :: _ => c == 45 | [] => false)
  let r := if neg then s.drop 1 else s
  let ds := r.takeWhile isDigit
  if yearShape ds then
    match afterYear (r.dropWhile isDigit) with
    | some (m, d, tm, eod, tz) =>
      .ok ⟨if neg then - (digitsVal ds : Int) else (digitsVal ds : Int), m, d, tm, eod, tz⟩
    | none => .error .value
  else .error .value

/-- `f'{abs(year):04d}'` -/
def year4 (n : Nat) : Str := List.replicate (4 - (natStr n).length) 48 ++ natStr n

/-- `_tz_to_string` -/
def tzStr (tz : Option Int) : Str :=
  match tz with
  | none => []
  | some o =>
    if o = 0 then [90]
    else (if 0 ≤ o then [43] else [45]) ++ pad2 (o.natAbs / 60) ++ [58] ++ pad2 (o.natAbs % 60)

/-- seconds text: `format(Decimal(repr(second)), 'f').rstrip('0').rstrip('.')`, zero padded to two integer digits -/
def secStr (ss : Nat) (frac : Str) : Str :=
  pad2 ss ++ (if (rstrip0 frac).isEmpty then [] else 46 :: rstrip0 frac)

/-- `-MM` / `-DD` if present -/
def dayStr (d : Option Nat) : Str := match d with | some d => 45 :: pad2 d | none => []

/-- the part of `__str__` behind the day -/
def timeStr (tm : Option (Nat × Nat × Nat × Str)) (eod : Bool) : Str :=
  if eod then [84, 50, 52, 58, 48, 48, 58, 48, 48]
  else match tm with
    | some (hh, mm, ss, fr) => [84] ++ pad2 hh ++ [58] ++ pad2 mm ++ [58] ++ secStr ss fr
    | none => []

/-- `XsdDateInformation.__str__` -/
def dateTimeStr (i : DateInfo) : Str :=
  (if i.year < 0 then [45] else []) ++ (year4 i.year.natAbs
    ++ (dayStr i.month ++ (dayStr i.day ++ (timeStr i.time i.eod ++ tzStr i.tz))))

end Sdc.Scalars
