import SdcModel.SendOrder
namespace Sdc.Generated
open Sdc.SendOrder
def writerSync : List Act := [.acq 0, .acq 1, .incVer, .send, .rel 1, .rel 0]
def writerAsync : List Act := [.acq 0, .acq 1, .incVer, .send, .rel 1, .rel 0]
end Sdc.Generated
