import SdcModel.UdpRepeat
namespace Sdc.Generated
open Sdc.UdpRepeat
def unicast : Params := ⟨500, 2, 50, 250, 500⟩
def multicast : Params := ⟨500, 4, 50, 250, 500⟩
def knownIdsMaxlen : Nat := 200
end Sdc.Generated
