import SdcModel.UdpRepeat
import SdcModel.UdpSendLoop
namespace Sdc.Generated
open Sdc.UdpRepeat
def unicast : Params := ⟨500, 2, 50, 250, 500⟩
def multicast : Params := ⟨500, 4, 50, 250, 500⟩
def knownIdsMaxlen : Nat := 200
/-- SEND_LOOP_BUSY_SLEEP, SEND_LOOP_IDLE_SLEEP in µs -/
def loopCfg : Sdc.UdpSendLoop.Cfg := ⟨10000, 100000⟩
/-- the compared fields of `_EnqueuedMessage`, in dataclass order -/
def queueKey : List String := ["send_time", "repeat"]
/-- what `add_outbound_message` does, in program order (traced on the real method) -/
def addOutboundOrder : List String := ["register", "put", "put", "put", "put", "put"]
/-- the ranges `_repeated_enqueue_msg` asks the random source for: (multicast set?, function, a, b) -/
def drawRanges : List (Bool × String × Nat × Nat) := [(false, "randint", 0, 500), (false, "randrange", 50, 250), (true, "randint", 0, 500), (true, "randrange", 50, 250)]
/-- what `NetworkingThread.join` does, in program order (thread joins with their timeout, then the closes) -/
def joinTrace : List (String × String) := [("join", "recv None"), ("join", "send None"), ("join", "qread None"), ("close", "multi_in"), ("close", "multi_out"), ("close", "inbound_selector"), ("close", "outbound_selector")]
/-- every `_send_*` of WSDiscovery: (name, destination is the multicast address, parameter set handed over) -/
def senders : List (String × Bool × Params) := [("_send_bye", true, ⟨500, 4, 50, 250, 500⟩), ("_send_hello", true, ⟨500, 4, 50, 250, 500⟩), ("_send_probe", true, ⟨500, 4, 50, 250, 500⟩), ("_send_probe_match", false, ⟨500, 2, 50, 250, 500⟩), ("_send_resolve", true, ⟨500, 4, 50, 250, 500⟩), ("_send_resolve_match", false, ⟨500, 2, 50, 250, 500⟩)]
end Sdc.Generated
