import SdcModel.Mdib
/-!
# M3 provider side, part 2: descriptor transactions (classic API) and their commit

Transcription of `DescriptorTransaction` (add_descriptor / remove_descriptor / get_descriptor / get_state /
add_state) and `DescriptorTransaction.process_transaction` with `_update_corresponding_state` and
`_increment_parent_descriptor_version`.
-/
namespace Sdc.Mdib

structure DItem where
  old : Option Descr
  new : Option Descr
deriving Repr, DecidableEq

structure DTx where
  newVer : Nat
  descr : List (Handle × DItem) := []
  sItems : List (Handle × SItem) := []     -- the five single-state dicts, told apart by `new.kind`
  cItems : List (Handle × CItem) := []     -- context_state_updates
deriving Repr, DecidableEq

inductive DCall
  | addDescr (d : Descr) (state : Option Nat)   -- add_descriptor(container[, state with this body])
  | removeDescr (h : Handle)
  | getDescr (h : Handle)
  | getState (h : Handle)
  | setDescrBody (h : Handle) (b : Nat)
  | setStateBody (h : Handle) (b : Nat)
  | writeEntity (d : Descr) (single : Option (Nat × Nat)) (multi : Option (List CState))
      -- write_entity(entity): entity.descriptor = d; Entity: state with (StateVersion, body); MultiStateEntity: its states
deriving Repr, DecidableEq

/-- `actual_descriptor`: the transaction's new descriptor, else the table's -/
def actualDescr (t : Tables) (tx : DTx) (h : Handle) : Except Err Descr :=
  match dictGet tx.descr h with
  | some it => match it.new with
    | none => .error .valueError
    | some d => .ok d
  | none => match findD t h with
    | some d => .ok d
    | none => .error .keyError

/-- `get_mds_descriptor`: walk up through table, then transaction; a root descriptor is the MDS -/
def findMds (t : Tables) (tx : DTx) : Nat → Descr → Except Err Handle
  | 0, _ => .error .keyError
  | fuel + 1, d =>
    match d.parent with
    | none => .ok d.handle
    | some p =>
      match findD t p with
      | some pd => findMds t tx fuel pd
      | none => match actualDescr t tx p with
        | .ok pd => findMds t tx fuel pd
        | .error e => .error e

def dCall (t : Tables) (tx : DTx) : DCall → Except Err DTx
  | .addDescr d0 st =>
    if (dictGet tx.descr d0.handle).isSome then .error .valueError else
    if (findD t d0.handle).isSome then .error .valueError else
    let d1 := match savedGet t.dSaved d0.handle with
      | some v => { d0 with ver := v + 1 }
      | none => d0
    match (match d1.mds with
           | some m => Except.ok (some m)
           | none => (findMds t tx (t.descrs.length + tx.descr.length + 1) d1).map some) with
    | .error e => .error e
    | .ok m =>
      let d := { d1 with mds := m }
      let tx1 := { tx with descr := dictSet tx.descr d.handle ⟨none, some d⟩ }
      match st with
      | none => .ok tx1
      | some b =>
        if d.kind == .context then .error .apiUsage else   -- harness never passes a context state here
        if (dictGet tx1.sItems d.handle).isSome then .error .valueError else
        let sv := match savedGet t.sSaved d.handle with
          | some v => v + 1
          | none => 0
        .ok { tx1 with sItems := dictSet tx1.sItems d.handle ⟨none, ⟨d.handle, d.ver, sv, d.kind, b⟩⟩ }
  | .removeDescr h =>
    if (dictGet tx.descr h).isSome then .error .valueError else
    match findD t h with
    | none => .error .keyError
    | some d => .ok { tx with descr := dictSet tx.descr h ⟨some d, none⟩ }
  | .getDescr h =>
    if (dictGet tx.descr h).isSome then .error .valueError else
    match findD t h with
    | none => .error .keyError
    | some d => .ok { tx with descr := dictSet tx.descr h ⟨some d, some { d with ver := d.ver + 1 }⟩ }
  | .getState h =>
    match dictGet tx.descr h with
    | none => .error .apiUsage
    | some it =>
      match it.new with
      | none => .error .attributeError
      | some d =>
        if d.kind == .context then .error .apiUsage else
        if (dictGet tx.sItems h).isSome then .error .valueError else
        match findS t h with
        | none => .error .keyError
        | some s => .ok { tx with sItems := dictSet tx.sItems h ⟨some s, { s with sv := s.sv + 1 }⟩ }
  | .setDescrBody h b =>
    match dictGet tx.descr h with
    | some ⟨o, some d⟩ => .ok { tx with descr := dictSet tx.descr h ⟨o, some { d with body := b }⟩ }
    | _ => .error .keyError
  | .setStateBody h b =>
    match dictGet tx.sItems h with
    | some it => .ok { tx with sItems := dictSet tx.sItems h { it with new := { it.new with body := b } } }
    | none => .error .keyError
  | .writeEntity d0 single multi =>
    if (dictGet tx.descr d0.handle).isSome then .error .valueError else
    let orig := findD t d0.handle
    let ver := match orig with
      | some o => o.ver + 1
      | none => match savedGet t.dSaved d0.handle with
        | some v => v + 1
        | none => d0.ver
    let d := { d0 with ver := ver }
    let tx1 := { tx with descr := dictSet tx.descr d.handle ⟨orig, some d⟩ }
    match multi with
    | some cs =>
      let olds := ctxOf t d.handle
      let put := fun (tx : DTx) (c : CState) =>
        let old := olds.find? (fun o => o.h == c.h)
        let sv := match old with
          | some o => o.sv + 1
          | none => match savedGet t.cSaved c.h with
            | some v => v + 1
            | none => c.sv
        { tx with cItems := dictSet tx.cItems c.h ⟨old, some { c with dv := ver, sv := sv }⟩ }
      let tx2 := cs.foldl put tx1
      let gone := olds.filter (fun o => !(cs.any (fun c => c.h == o.h)))
      .ok (gone.foldl (fun tx o => { tx with cItems := dictSet tx.cItems o.h ⟨some o, none⟩ }) tx2)
    | none =>
      match single with
      | none => .ok tx1
      | some (sv0, b) =>
        if d.kind == .context then .error .notImplemented else
        let old := findS t d.handle
        let sv := match old with
          | some o => o.sv + 1
          | none => match savedGet t.sSaved d.handle with
            | some v => v + 1
            | none => sv0
        .ok { tx1 with sItems := dictSet tx1.sItems d.handle ⟨old, ⟨d.handle, ver, sv, d.kind, b⟩⟩ }

/-! ### commit -/

structure DCommit where
  t : Tables
  tx : DTx
  res : TxResult := {}
deriving Repr

/-- `_update_corresponding_state(d)` -/
def updCorresponding (c : DCommit) (d : Descr) : DCommit :=
  if d.kind == .context then
    let step := fun (tx : DTx) (cs : CState) =>
      match dictGet tx.cItems cs.h with
      | some ⟨_, none⟩ => tx      -- deleted in this transaction (write_entity without this state)
      | some ⟨o, some n⟩ => { tx with cItems := dictSet tx.cItems cs.h ⟨o, some { n with sv := n.sv + 1, dv := d.ver }⟩ }
      | none => { tx with cItems := dictSet tx.cItems cs.h ⟨some cs, some { cs with sv := cs.sv + 1, dv := d.ver }⟩ }
    { c with tx := (ctxOf c.t d.handle).foldl step c.tx }
  else
    match dictGet c.tx.sItems d.handle with
    | some it => { c with tx := { c.tx with sItems := dictSet c.tx.sItems d.handle { it with new := { it.new with dv := d.ver } } } }
    | none =>
      match findS c.t d.handle with
      | none => c
      | some s => { c with tx := { c.tx with sItems := dictSet c.tx.sItems d.handle ⟨some s, { s with dv := d.ver, sv := s.sv + 1 }⟩ } }

def replaceDescr (t : Tables) (d : Descr) : Tables :=
  { t with descrs := t.descrs.map (fun x => if x.handle == d.handle then d else x) }

/-- in-place update followed by `update_object_no_lock`: the re-index moves the object to the end of its index lists -/
def reindexDescr (t : Tables) (d : Descr) : Tables :=
  { t with descrs := t.descrs.filter (fun x => x.handle != d.handle) ++ [d] }

/-- `_increment_parent_descriptor_version` -/
def incParent (c : DCommit) (parent : Handle) : DCommit :=
  match findD c.t parent with
  | none => c
  | some p =>
    -- incremented and reported only once per transaction
    if c.res.descrUpdated.any (fun d => d.handle == parent) then c else
    let p' := { p with ver := p.ver + 1 }
    updCorresponding { c with t := replaceDescr c.t p', res := { c.res with descrUpdated := c.res.descrUpdated ++ [p'] } } p'

/-- `get_all_descriptors_in_subtree(depth_first=True, include_root=True)` without the root: children's subtrees, then the children -/
def subtreeBelow (t : Tables) : Nat → Handle → List Descr
  | 0, _ => []
  | fuel + 1, h =>
    let cs := childrenOf t h
    (cs.flatMap (fun c => subtreeBelow t fuel c.handle)) ++ cs

/-- `rm_descriptors_and_states` for one descriptor -/
def rmDescrAndStates (t : Tables) (d : Descr) : Tables :=
  let t1 := rmDescr t d.handle
  let t2 := rmState t1 d.handle
  (ctxOf t2 d.handle).foldl (fun t c => rmCtx t c.h) t2

def commitDItem (toDel toCreate toUpdate : List Handle) (c : DCommit) (it : DItem) : DCommit × Option Err :=
  match it.old, it.new with
  | none, some n =>
    match addDescr c.t n with
    | .error e => ({ c with res := { c.res with descrCreated := c.res.descrCreated ++ [n] } }, some e)
    | .ok t1 =>
      let c1 := { c with t := t1, res := { c.res with descrCreated := c.res.descrCreated ++ [n] } }
      let c2 := match n.parent with
        | some p => if toCreate.contains p || toUpdate.contains p then c1 else incParent c1 p
        | none => c1
      (updCorresponding c2 n, none)
  | some o, none =>
    -- already deleted (and reported) as part of a subtree deleted earlier in this transaction
    if (findD c.t o.handle).isNone then (c, none) else
    let all := subtreeBelow c.t (c.t.descrs.length + 1) o.handle ++ [o]
    let t1 := all.foldl rmDescrAndStates c.t
    let c1 := { c with t := t1, res := { c.res with descrDeleted := c.res.descrDeleted ++ all } }
    let c2 := match o.parent with
      | some p => if toDel.contains p || toUpdate.contains p then c1 else incParent c1 p
      | none => c1
    (c2, none)
  | some o, some n =>
    -- the object fetched by get_descriptor is updated in place (all properties, not the parent / source mds)
    let o' := { o with ver := n.ver, body := n.body }
    let c1 := { c with res := { c.res with descrUpdated := c.res.descrUpdated ++ [n] } }
    match findD c.t o.handle with
    | some _ =>
      let c2 := updCorresponding { c1 with t := replaceDescr c1.t o' } o'
      ({ c2 with t := reindexDescr c2.t o' }, none)
    | none =>
      -- the object was removed from the table earlier in this commit: `update_object_no_lock` raises ValueError
      (updCorresponding c1 o', some .valueError)
  | none, none => (c, none)

def commitDItems (toDel toCreate toUpdate : List Handle) : DCommit → List (Handle × DItem) → DCommit × Option Err
  | c, [] => (c, none)
  | c, (_, it) :: rest =>
    match commitDItem toDel toCreate toUpdate c it with
    | (c1, some e) => (c1, some e)
    | (c1, none) => commitDItems toDel toCreate toUpdate c1 rest

def kindOrder : List Kind := [.alert, .metric, .component, .operational, .rt]

/-- one of the five single-state dicts through `_handle_state_updates` -/
def applyKind (c : DCommit) (k : Kind) : DCommit × Option Err :=
  let r := applySItems c.t (c.tx.sItems.filter (fun p => p.2.new.kind == k))
  ({ c with t := r.1, res := c.res.putStates k r.2.1 }, r.2.2)

def applyKinds : DCommit → List Kind → DCommit × Option Err
  | c, [] => (c, none)
  | c, k :: ks =>
    match applyKind c k with
    | (c1, some e) => (c1, some e)
    | (c1, none) => applyKinds c1 ks

def applyCtx (c : DCommit) : DCommit × Option Err :=
  let r := applyCItems c.t c.tx.cItems
  ({ c with t := r.1, res := { c.res with ctx := c.res.ctx ++ r.2.1 } }, r.2.2)

/-- the state dicts in the order alert, metric, context, component, operational, rt -/
def commitStates (c : DCommit) : DCommit × Option Err :=
  match applyKinds c [.alert, .metric] with
  | (c1, some e) => (c1, some e)
  | (c1, none) =>
    match applyCtx c1 with
    | (c2, some e) => (c2, some e)
    | (c2, none) => applyKinds c2 [.component, .operational, .rt]

def toDelOf (tx : DTx) : List Handle :=
  tx.descr.filterMap (fun p => match p.2.old, p.2.new with | some o, none => some o.handle | _, _ => none)
def toCreateOf (tx : DTx) : List Handle :=
  tx.descr.filterMap (fun p => match p.2.old, p.2.new with | none, some n => some n.handle | _, _ => none)
def toUpdateOf (tx : DTx) : List Handle :=
  tx.descr.filterMap (fun p => match p.2.old, p.2.new with | some _, some n => some n.handle | _, _ => none)

/-- handles of all descriptors that disappear: the subtrees of the deleted descriptors -/
def deletedHandles (t : Tables) (tx : DTx) : List Handle :=
  (toDelOf tx).flatMap (fun h => (subtreeBelow t (t.descrs.length + 1) h).map (·.handle) ++ [h])

/-- `_check_consistency`: nothing is updated or created below a descriptor deleted in the same transaction,
    and the parent of a new descriptor exists (in the table or among the created ones) -/
def consistentD (t : Tables) (tx : DTx) : Bool :=
  let del := deletedHandles t tx
  tx.descr.all fun p =>
    match p.2.old, p.2.new with
    | some _, some _ => !del.contains p.1
    | none, some n =>
      match n.parent with
      | none => true
      | some q => (toCreateOf tx).contains q || (!del.contains q && (findD t q).isSome)
    | _, _ => true

def commitD (t : Tables) (tx : DTx) : Tables × TxResult × Option Err :=
  if tx.descr.isEmpty then (t, {}, none) else
  if !consistentD t tx then (t, {}, some .apiUsage) else
  -- the parent of a deleted descriptor is only bumped if it survives: `toDel` = all handles of the deleted subtrees
  let toDel := deletedHandles t tx
  let toCreate := toCreateOf tx
  match commitDItems toDel toCreate (toUpdateOf tx) { t := { t with ver := t.ver + 1 }, tx := tx } tx.descr with
  | (c, some e) => (c.t, c.res, some e)
  | (c, none) =>
    let (c2, e) := commitStates c
    (c2.t, c2.res, e)

structure DScript where
  calls : List DCall
  catchErrors : Bool := false
  raiseAtEnd : Bool := false
deriving Repr, DecidableEq

def runD (t : Tables) (s : DScript) : Tables × TxResult × Outcome :=
  match runCalls (dCall t) s.catchErrors { newVer := t.ver + 1 } s.calls with
  | .error _ => (t, {}, .rejected)
  | .ok tx =>
    if s.raiseAtEnd then (t, {}, .aborted) else
    match commitD t tx with
    | (t', _, some _) => (t', {}, .commitFailed)
    | (t', r, none) => (t', r, if tx.descr.isEmpty then .empty else .committed)

end Sdc.Mdib

namespace Sdc.Mdib

/-- one `with mdib.<kind>_transaction() as mgr:` block of any of the seven kinds -/
inductive Script
  | s (x : SScript)
  | c (x : CScript)
  | d (x : DScript)
deriving Repr, DecidableEq

def runScript (t : Tables) : Script → Tables × TxResult × Outcome
  | .s x => runS t x
  | .c x => runC t x
  | .d x => runD t x

/-- a history of transactions; the reports of every step are collected in order -/
def runHist (t : Tables) : List Script → Tables
  | [] => t
  | sc :: rest => runHist (runScript t sc).1 rest

end Sdc.Mdib
