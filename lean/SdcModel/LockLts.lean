/-!
# M4 `LockLts` — interleaving semantics of request handlers (readers) and transactions (writers) on `mdib_lock`

A thread is a list of atomic actions; a configuration holds the lock owners (re-entrancy counts), the shared MDIB
state (version counter, the table's current content object, an object heap), the history of published
(version, content) pairs and per-thread program counter and locals. The step relation lets ANY enabled thread move.

What the actions stand for in the code (the programs are generated from dynamic traces of the real handlers and
transactions, `harness/locktrace.py` → `Generated/LockProgs.lean`):
* `acq l` / `rel l` — `with mdib.mdib_lock:` (`l = 0`, `threading.RLock`), `_tr_lock` (`l = 1`)
* `rdV`   — read of `mdib_version` / `sequence_id` / `instance_id` / `mdib_version_group`
* `rdD`   — read of the description: look-up in / walk over the `descriptions` table and serialisation of descriptor
            objects. Descriptor objects ARE updated in place by descriptor transactions
            (`update_from_other_container`), so their content is modelled as a value that is read on the spot.
* `wrD x` — write of the description (table change or in-place update of a descriptor object)
* `rdC`   — read of a state table (`objects`, index `get` / `get_one`): the thread obtains *references* to state objects
* `deref` — read of the content of the state objects obtained before (serialisation `mk_state_node`)
* `incV`  — write of `mdib_version`
* `wrC x` — state table write in which a NEW object replaces the current one (`remove_object` + `add_object`)
* `mutate x` — in-place change of a state object that is in the table (what a shallow `mk_copy` makes possible)
-/
namespace Sdc.LockLts

inductive Act
  | acq (l : Nat)
  | rel (l : Nat)
  | rdV
  | rdD
  | rdC
  | deref
  | incV
  | wrD (x : Nat)
  | wrC (x : Nat)
  | mutate (x : Nat)
deriving DecidableEq, Repr

structure Thr where
  prog : List Act          -- the whole program (never changes)
  todo : List Act          -- what is left of it
  ref : Option Nat := none -- object reference obtained by the last `rdC`
  obsV : List Nat := []    -- versions observed
  obsD : List Nat := []    -- description contents observed
  obsC : List Nat := []    -- state contents observed
deriving Repr

structure Cfg where
  owner : Nat → Option (Nat × Nat)   -- lock ↦ (owning thread, re-entrancy count)
  ver : Nat                          -- mdib_version
  dsc : Nat                          -- content of the description (descriptor objects are changed in place)
  cur : Nat                          -- id of the state object currently in the table
  heap : Nat → Nat                   -- state object id ↦ content
  next : Nat                         -- next fresh object id
  hist : List (Nat × Nat × Nat)      -- (version, description, states) published whenever mdib_lock became free
  thr : Nat → Thr

def upd {β : Type} (f : Nat → β) (i : Nat) (v : β) : Nat → β := fun j => if j = i then v else f j

@[simp] theorem upd_same {β : Type} (f : Nat → β) (i : Nat) (v : β) : upd f i v i = v := by simp [upd]
@[simp] theorem upd_other {β : Type} (f : Nat → β) (i : Nat) (v : β) (j : Nat) (h : j ≠ i) : upd f i v j = f j := by
  simp [upd, h]

/-- thread `i` (with `rest` left to do afterwards) executes action `a`, if it is enabled -/
def stepAct (c : Cfg) (i : Nat) (a : Act) (rest : List Act) : Option Cfg :=
  let t := c.thr i
  let t' : Thr := { t with todo := rest }
  match a with
  | .acq l =>
    match c.owner l with
    | none => some { c with owner := upd c.owner l (some (i, 1)), thr := upd c.thr i t' }
    | some (j, n) =>
      if j = i then some { c with owner := upd c.owner l (some (i, n + 1)), thr := upd c.thr i t' }
      else none                                                   -- blocked
  | .rel l =>
    match c.owner l with
    | none => none
    | some (j, n) =>
      if j = i then
        if n ≤ 1 then
          some { c with owner := upd c.owner l none,
                        hist := if l = 0 then c.hist ++ [(c.ver, c.dsc, c.heap c.cur)] else c.hist,
                        thr := upd c.thr i t' }
        else some { c with owner := upd c.owner l (some (i, n - 1)), thr := upd c.thr i t' }
      else none
  | .rdV => some { c with thr := upd c.thr i { t' with obsV := t.obsV ++ [c.ver] } }
  | .rdD => some { c with thr := upd c.thr i { t' with obsD := t.obsD ++ [c.dsc] } }
  | .rdC => some { c with thr := upd c.thr i { t' with ref := some c.cur } }
  | .deref =>
    match t.ref with
    | some r => some { c with thr := upd c.thr i { t' with obsC := t.obsC ++ [c.heap r] } }
    | none => none
  | .incV => some { c with ver := c.ver + 1, thr := upd c.thr i t' }
  | .wrD x => some { c with dsc := x, thr := upd c.thr i t' }
  | .wrC x => some { c with heap := upd c.heap c.next x, cur := c.next, next := c.next + 1, thr := upd c.thr i t' }
  | .mutate x => some { c with heap := upd c.heap c.cur x, thr := upd c.thr i t' }

/-- thread `i` executes its next action, if it has one and it is enabled -/
def stepFn (c : Cfg) (i : Nat) : Option Cfg :=
  match (c.thr i).todo with
  | [] => none
  | a :: rest => stepAct c i a rest

/-- reachability under ANY schedule: at every step any thread whose next action is enabled may move -/
inductive Reach (c0 : Cfg) : Cfg → Prop
  | refl : Reach c0 c0
  | step {c c' : Cfg} {i : Nat} : Reach c0 c → stepFn c i = some c' → Reach c0 c'

/-- run a given schedule (list of thread ids); a step that is not enabled is skipped. Returns the final
    configuration and, per schedule entry, whether the thread moved. -/
def runSched (c : Cfg) : List Nat → Cfg × List Bool
  | [] => (c, [])
  | i :: is =>
    match stepFn c i with
    | some c' => let r := runSched c' is; (r.1, true :: r.2)
    | none => let r := runSched c is; (r.1, false :: r.2)

theorem reach_runSched (c0 c : Cfg) (h : Reach c0 c) (s : List Nat) : Reach c0 (runSched c s).1 := by
  induction s generalizing c with
  | nil => exact h
  | cons i is ih =>
    simp only [runSched]
    split
    · next c' hs => exact ih c' (Reach.step h hs)
    · exact ih c h

/-! ## lock discipline of a program (decidable) -/

inductive Phase
  | before   -- no shared read yet
  | during   -- inside the (one) critical section in which the shared reads happen
  | after    -- that section has been left
  | mixed    -- the thread wrote after it read: its observations are its own business (transactions)
deriving DecidableEq, Repr

structure Scan where
  d : Nat                  -- nesting depth on lock 0 (mdib_lock)
  ph : Phase
  dirty : Bool := false    -- content was written in the current outermost critical section
  bumped : Bool := false   -- mdib_version was incremented in the current outermost critical section
  ok : Bool := true        -- no section so far was left with content written but the version not incremented
deriving DecidableEq, Repr

def Act.isWrite : Act → Bool
  | .incV | .wrD _ | .wrC _ | .mutate _ => true
  | _ => false

def Act.isMutate : Act → Bool
  | .mutate _ => true
  | _ => false

/-- one action seen by the scanner; `none` = the discipline is violated -/
def stepScan (s : Scan) : Act → Option Scan
  | .acq l =>
    if l = 0 then
      if s.d = 0 then some { s with d := 1, dirty := false, bumped := false }   -- a new outermost section begins
      else some { s with d := s.d + 1 }
    else some s
  | .rel l =>
    if l = 0 then
      if s.d = 0 then none
      else some { s with d := s.d - 1, ph := if s.d = 1 ∧ s.ph = .during then .after else s.ph,
                         ok := if s.d = 1 then s.ok && (!s.dirty || s.bumped) else s.ok }
    else some s
  | .rdV | .rdD | .rdC =>
    if s.d = 0 then none                      -- shared read outside the critical section
    else match s.ph with
      | .before | .during => some { s with ph := .during }
      | .after => none                        -- shared read in a second critical section
      | .mixed => some s
  | .deref => some s
  | .incV =>
    if s.d = 0 then none                      -- shared write outside the critical section
    else some { s with ph := if s.ph = .during then .mixed else s.ph, bumped := true }
  | .wrD _ | .wrC _ | .mutate _ =>
    if s.d = 0 then none                      -- shared write outside the critical section
    else some { s with ph := if s.ph = .during then .mixed else s.ph, dirty := true }

def scan (s : Scan) : List Act → Option Scan
  | [] => some s
  | a :: as => match stepScan s a with
    | some s' => scan s' as
    | none => none

def scan0 : Scan := { d := 0, ph := .before }

/-- every shared access of the program lies inside a critical section on `mdib_lock`, all shared reads lie in one
    and the same section, acquire/release are balanced -/
def WellLocked (p : List Act) : Prop :=
  match scan scan0 p with
  | some s => s.d = 0
  | none => False

instance (p : List Act) : Decidable (WellLocked p) := by
  unfold WellLocked; cases scan scan0 p <;> infer_instance

/-- every critical section of the program that changes content also increments `mdib_version`
    (what makes "the MDIB at MdibVersion v" well defined) -/
def Committing (p : List Act) : Prop :=
  match scan scan0 p with
  | some s => s.ok = true
  | none => False

instance (p : List Act) : Decidable (Committing p) := by
  unfold Committing; cases scan scan0 p <;> infer_instance

/-- the program writes no shared state (a request handler) -/
def ReadOnly (p : List Act) : Prop := ∀ a ∈ p, a.isWrite = false
instance (p : List Act) : Decidable (ReadOnly p) := by unfold ReadOnly; infer_instance

/-- the program never changes an object that is in the table in place (published objects are immutable) -/
def NoMutate (p : List Act) : Prop := ∀ a ∈ p, a.isMutate = false
instance (p : List Act) : Decidable (NoMutate p) := by unfold NoMutate; infer_instance

/-- initial configuration: all locks free, the current (version, content) is the only published pair, no thread
    has started -/
def Init (c : Cfg) : Prop :=
  (∀ l, c.owner l = none) ∧ c.hist = [(c.ver, c.dsc, c.heap c.cur)] ∧ c.cur < c.next ∧
  ∀ j, (c.thr j).todo = (c.thr j).prog ∧ (c.thr j).ref = none ∧ (c.thr j).obsV = [] ∧ (c.thr j).obsD = [] ∧
    (c.thr j).obsC = []

/-- all observations of thread `t` are observations of the published triple `p` -/
def Consistent (t : Thr) (p : Nat × Nat × Nat) : Prop :=
  (∀ v ∈ t.obsV, v = p.1) ∧ (∀ d ∈ t.obsD, d = p.2.1) ∧ (∀ x ∈ t.obsC, x = p.2.2)

/-- configuration with the given programs (thread `k` runs `progs[k]`), version `v`, description `d`, states `x` -/
def mkCfg (progs : List (List Act)) (v d x : Nat) : Cfg :=
  { owner := fun _ => none, ver := v, dsc := d, cur := 0, heap := fun _ => x, next := 1, hist := [(v, d, x)],
    thr := fun j => let p := progs.getD j []; { prog := p, todo := p } }

end Sdc.LockLts
