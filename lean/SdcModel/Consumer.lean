import SdcModel.MdibTypes
/-!
# Consumer MDIB (M3, consumer side) — transcription of `sdc11073/mdib/consumermdib.py`

Consumer state = three keyed tables + version group + mode (invalid | initializing | initialized) + buffer of
the notifications that arrived while `reload_all` was running.  `step` transcribes

* `_pre_check_report_ok` (watchdog `_check_sequence_or_instance_id_changed`, drop when invalid, buffer when
  initializing),
* the `_process_incoming_*` handlers: MdibVersion gate `>=` (`_can_accept_mdib_version`), take-over of the version
  group (`_update_from_mdib_version_group`), per state the StateVersion gate
  (`_has_new_state_usable_state_version`), "missing state ⇒ add",
* `_process_incoming_description_modifications` (CREATE / UPDATE / DELETE parts),
* `reload_all` (clear, load the GetMdib answer, GetContextStates when no context state came, replay of the buffer).

The tables are association lists (the Python tables are sets + index dicts; only the content by value is
observable).  "Update in place" (`update_from_other_container` + `update_object`) is the replacement of the record
at its position.  Exceptions: with the repaired code no handler raises on the modelled domain (see the harness
assumptions: a handle keeps its container class; report parts carry one descriptor).
-/
namespace Sdc.Consumer
open Sdc.Mdib

/-! ### keyed lists -/
section Keyed
variable {α : Type}

/-- `index.get_one(k, allow_none=True)` -/
def lookupBy (key : α → Nat) (l : List α) (k : Nat) : Option α := l.find? (fun y => key y == k)

/-- `old.update_from_other_container(x); table.update_object(old)` by value -/
def replaceBy (key : α → Nat) (l : List α) (x : α) : List α := l.map (fun y => if key y == key x then x else y)

/-- remove every entry whose key satisfies `p` -/
def removeBy (key : α → Nat) (l : List α) (p : Nat → Bool) : List α := l.filter (fun y => !p (key y))

/-- `_has_new_state_usable_state_version`: `diff = new − old`; 1 ⇒ yes, > 1 ⇒ yes (logs), otherwise no -/
def hasNewUsableVersion (old new : Nat) : Bool :=
  let diff : Int := (new : Int) - (old : Int)
  if diff == 1 then true else if diff > 1 then true else false

/-- existing entry: StateVersion gate, then update in place; missing entry: add (state / context reports, CREATE
    parts) or ignore (UPDATE parts).  The flag says whether the entry went into the notification dict. -/
def gatedPut (key sv : α → Nat) (addMissing : Bool) (l : List α) (x : α) : List α × Bool :=
  match lookupBy key l (key x) with
  | some old => if hasNewUsableVersion (sv old) (sv x) then (replaceBy key l x, true) else (l, false)
  | none => if addMissing then (l ++ [x], true) else (l, false)

/-- a list of incoming entries, in order; second component = keys that were accepted -/
def gatedPutAll (key sv : α → Nat) (addMissing : Bool) : List α → List α → List α × List Nat
  | l, [] => (l, [])
  | l, x :: xs =>
    let r := gatedPut key sv addMissing l x
    let rest := gatedPutAll key sv addMissing r.1 xs
    (rest.1, if r.2 then key x :: rest.2 else rest.2)

end Keyed

/-! ### consumer state -/

structure Tables where
  descrs : List Descr := []
  states : List SState := []
  cstates : List CState := []
deriving DecidableEq, Repr, Inhabited

inductive Mode | invalid | initializing | initialized
deriving DecidableEq, Repr, Inhabited

/-- what the report handlers read and write -/
structure Core where
  vg : VersionGroup
  tabs : Tables
deriving DecidableEq, Repr, Inhabited

structure St where
  mode : Mode
  core : Core
  buf : List Report
deriving DecidableEq, Repr, Inhabited

/-- a fresh `ConsumerMdib`: `mdib_version = 0`, `sequence_id = ''` (interned as 0), `instance_id = None`, state `invalid` -/
def St.init : St := ⟨.invalid, ⟨⟨0, 0, none⟩, {}⟩, []⟩

/-- answer of GetMdib -/
structure Snapshot where
  vg : VersionGroup
  descrs : List Descr
  states : List SState
  cstates : List CState
deriving DecidableEq, Repr, Inhabited

/-- the observables raised while one report is processed -/
structure Notif where
  kind : ReportKind
  /-- keys of the `*_by_handle` dict of a state report -/
  handles : List Handle := []
  created : List Handle := []
  updated : List Handle := []
  deleted : List Handle := []
  /-- `sequence_or_instance_id_changed_event` -/
  idChanged : Bool := false
  /-- reload rejected (duplicate keys in the answer: the implementation raises) -/
  err : Bool := false
deriving DecidableEq, Repr, Inhabited

inductive Event
  | report (r : Report)
  /-- `reload_all` up to the point where GetMdib is sent -/
  | reloadBegin
  /-- GetMdib answer `snap` (and the GetContextStates answer `ctx2`, used when `snap` has no context state) arrive -/
  | reloadEnd (snap : Snapshot) (ctx2 : List CState)
deriving Repr, Inhabited

def Event.isReport : Event → Bool
  | .report _ => true
  | _ => false

/-! ### description modification report -/

/-- handles of the descriptors whose parent is in `hs` -/
def childrenOf (ds : List Descr) (hs : List Handle) : List Handle :=
  (ds.filter (fun d => match d.parent with
    | some p => hs.contains p
    | none => false)).map (·.handle)

/-- `get_all_descriptors_in_subtree`: the handles reachable through `parent_handle`; `fuel = #descriptors` is enough
    for a forest (the Python recursion does not terminate on a cyclic table) -/
def reach : Nat → List Descr → List Handle → List Handle
  | 0, _, acc => acc
  | n + 1, ds, acc =>
    let new := (childrenOf ds acc).filter (fun h => !acc.contains h)
    if new.isEmpty then acc else reach n ds (acc ++ new)

def subtree (ds : List Descr) (h : Handle) : List Handle := reach ds.length ds [h]

/-- `rm_descriptor_by_handle`: nothing when the handle is unknown, else the subtree with all its states -/
def rmDescriptor (t : Tables) (h : Handle) : Tables × List Handle :=
  match lookupBy (·.handle) t.descrs h with
  | none => (t, [])
  | some _ =>
    let hs := subtree t.descrs h
    ({ descrs := removeBy (·.handle) t.descrs hs.contains
       states := removeBy (·.dh) t.states hs.contains
       cstates := removeBy (·.dh) t.cstates hs.contains }, hs)

/-- CREATE part: a descriptor that is already there (duplicated report, missed deletion) is replaced -/
def createDescr (ds : List Descr) (d : Descr) : List Descr :=
  match lookupBy (·.handle) ds d.handle with
  | some _ => replaceBy (·.handle) ds d
  | none => ds ++ [d]

/-- UPDATE part: `update_from_other_container` copies the container properties, not `parent_handle` / `source_mds` -/
def updateDescr (ds : List Descr) (d : Descr) : List Descr :=
  match lookupBy (·.handle) ds d.handle with
  | some old => replaceBy (·.handle) ds { d with parent := old.parent, mds := old.mds }
  | none => ds

def applyPart (t : Tables) (p : DescrPart) : Tables :=
  match p.mod with
  | .create =>
    { descrs := createDescr t.descrs p.descr
      states := (gatedPutAll (·.dh) (·.sv) true t.states p.states).1
      cstates := (gatedPutAll (·.h) (·.sv) true t.cstates p.cstates).1 }
  | .update =>
    -- context descriptor: local context states of it that are not in the part are removed
    let keep := (p.cstates.filter (fun s => s.dh == p.descr.handle)).map (·.h)
    let cs := if p.descr.kind == Kind.context
      then t.cstates.filter (fun s => !(s.dh == p.descr.handle && !keep.contains s.h))
      else t.cstates
    { descrs := updateDescr t.descrs p.descr
      states := (gatedPutAll (·.dh) (·.sv) false t.states p.states).1
      cstates := (gatedPutAll (·.h) (·.sv) false cs p.cstates).1 }
  | .delete => (rmDescriptor t p.descr.handle).1

def applyParts (t : Tables) (ps : List DescrPart) : Tables := ps.foldl applyPart t

/-- handles named by `deleted_descriptors_by_handle` while the parts are processed: the removed subtrees
    (`rm_descriptors_and_states`) and, at the end, the descriptors of the DELETE parts -/
def deletedNotif : Tables → List DescrPart → List Handle
  | _, [] => []
  | t, p :: ps =>
    (match p.mod with
     | .delete => (rmDescriptor t p.descr.handle).2 ++ [p.descr.handle]
     | _ => []) ++ deletedNotif (applyPart t p) ps

def partHandles (m : ModType) (ps : List DescrPart) : List Handle :=
  (ps.filter (fun p => p.mod == m)).map (·.descr.handle)

/-! ### the handlers -/

/-- `_can_accept_mdib_version` -/
def canAccept (c : Core) (r : Report) : Bool := decide (r.vg.ver ≥ c.vg.ver)

/-- one `_process_incoming_*` handler (called with `mdib_lock` held) -/
def applyReport (c : Core) (r : Report) : Core × Notif :=
  if canAccept c r then
    -- `_update_from_mdib_version_group`
    match r.kind with
    | .context =>
      let res := gatedPutAll (·.h) (·.sv) true c.tabs.cstates r.cstates
      (⟨r.vg, { c.tabs with cstates := res.1 }⟩, { kind := r.kind, handles := res.2 })
    | .description =>
      (⟨r.vg, applyParts c.tabs r.parts⟩,
       { kind := r.kind, created := partHandles .create r.parts, updated := partHandles .update r.parts,
         deleted := deletedNotif c.tabs r.parts })
    | _ =>
      let res := gatedPutAll (·.dh) (·.sv) true c.tabs.states r.states
      (⟨r.vg, { c.tabs with states := res.1 }⟩, { kind := r.kind, handles := res.2 })
  else (c, { kind := r.kind })

/-- `_check_sequence_or_instance_id_changed` -/
def idsDiffer (c : Core) (r : Report) : Bool := !(r.vg.seq == c.vg.seq && r.vg.inst == c.vg.inst)

/-! ### reload -/

def keysNodup (key : α → Nat) (l : List α) : Bool := (l.map key).Nodup

def Snapshot.wf (s : Snapshot) (ctx2 : List CState) : Bool :=
  keysNodup (·.handle) s.descrs && keysNodup (·.dh) s.states && keysNodup (·.h) s.cstates && keysNodup (·.h) ctx2

/-- tables after the GetMdib answer (and GetContextStates when the answer had no context state) were loaded -/
def loadSnapshot (s : Snapshot) (ctx2 : List CState) : Core :=
  ⟨s.vg, { descrs := s.descrs, states := s.states, cstates := if s.cstates.isEmpty then ctx2 else s.cstates }⟩

/-- replay of the buffered notifications: other SequenceId ⇒ skip, not newer than the loaded MdibVersion `v0` ⇒ skip,
    else the handler itself (without the watchdog) -/
def replay (v0 : Nat) : Core → List Report → Core × List Notif
  | c, [] => (c, [])
  | c, r :: rs =>
    if r.vg.seq != c.vg.seq then replay v0 c rs
    else if r.vg.ver ≤ v0 then replay v0 c rs
    else
      let a := applyReport c r
      let rest := replay v0 a.1 rs
      (rest.1, a.2 :: rest.2)

/-! ### one event -/

def step (s : St) : Event → St × List Notif
  | .report r =>
    let changed := idsDiffer s.core r && s.mode == .initialized
    let s1 : St := if changed then { s with mode := .invalid } else s
    let wd : List Notif := if changed then [{ kind := r.kind, idChanged := true }] else []
    match s1.mode with
    | .invalid => (s1, wd)
    | .initializing => ({ s1 with buf := s1.buf ++ [r] }, wd)
    | .initialized =>
      let a := applyReport s1.core r
      ({ s1 with core := a.1 }, wd ++ [a.2])
  | .reloadBegin =>
    ({ s with mode := .initializing, core := ⟨⟨0, 0, none⟩, {}⟩ }, [])
  | .reloadEnd snap ctx2 =>
    if s.mode != .initializing then (s, [])
    else if !snap.wf ctx2 then (s, [{ kind := .description, err := true }])
    else
      let c0 := loadSnapshot snap ctx2
      let r := replay c0.vg.ver c0 s.buf
      (⟨.initialized, r.1, []⟩, r.2)

def run (s : St) (evs : List Event) : St := evs.foldl (fun s e => (step s e).1) s

/-- `_pre_check_report_ok` is not atomic: the notification thread reads the state (first half), then takes
    `_buffered_notifications_lock` and reads the state **again** (second half).  `finishBuffered` is the second half for
    a thread whose first half saw `initializing`; `reload_all` may have finished in between (replay, clearing of the
    buffer and the switch to `initialized` happen inside the same lock section, so `reloadEnd` is atomic with respect
    to this step).  Still initializing ⇒ buffer; otherwise the pre-check answers True and the handler runs. -/
def finishBuffered (s : St) (r : Report) : St × List Notif :=
  match s.mode with
  | .initializing => ({ s with buf := s.buf ++ [r] }, [])
  | _ =>
    let a := applyReport s.core r
    ({ s with core := a.1 }, [a.2])

/-- all notifications raised along the events -/
def runNotifs : St → List Event → List Notif
  | _, [] => []
  | s, e :: evs => (step s e).2 ++ runNotifs (step s e).1 evs

/-! ### vocabulary of the property statements -/

/-- every single state a report carries (directly or inside description modification parts) -/
def allStates (r : Report) : List SState := r.states ++ r.parts.flatMap (·.states)
def allCStates (r : Report) : List CState := r.cstates ++ r.parts.flatMap (·.cstates)

/-- the part neither deletes a descriptor nor updates a context descriptor (which removes context states) -/
def partNonRemoving (p : DescrPart) : Bool :=
  p.mod == .create || (p.mod == .update && p.descr.kind != Kind.context)

/-- the report announces no deletion -/
def nonRemoving (r : Report) : Bool := r.kind != .description || r.parts.all partNonRemoving

/-- keys of the three tables are unique (what the unique indices `handle` / `descriptor_handle` enforce) -/
structure Tables.Wf (t : Tables) : Prop where
  d : (t.descrs.map (·.handle)).Nodup
  s : (t.states.map (·.dh)).Nodup
  c : (t.cstates.map (·.h)).Nodup

/-- every entry persists and its version does not decrease -/
def Keeps {α : Type} (key sv : α → Nat) (l l' : List α) : Prop :=
  ∀ k a, lookupBy key l k = some a → ∃ b, lookupBy key l' k = some b ∧ sv a ≤ sv b

/-- versions of the entries present in both lists do not decrease (entries may disappear) -/
def Mono {α : Type} (key sv : α → Nat) (l l' : List α) : Prop :=
  ∀ k a b, lookupBy key l k = some a → lookupBy key l' k = some b → sv a ≤ sv b

/-- the table already holds an entry for the key of `x` that is at least as new -/
def Covered {α : Type} (key sv : α → Nat) (l : List α) (x : α) : Prop :=
  ∃ a, lookupBy key l (key x) = some a ∧ sv x ≤ sv a

/-- the handlers applied one after the other -/
def applyAll : Core → List Report → Core × List Notif
  | c, [] => (c, [])
  | c, r :: rs => ((applyAll (applyReport c r).1 rs).1, (applyReport c r).2 :: (applyAll (applyReport c r).1 rs).2)

/-- a buffered report is replayed iff it has the SequenceId of the loaded MDIB and is newer than it -/
def replayable (v0 seq : Nat) (r : Report) : Bool := r.vg.seq == seq && decide (v0 < r.vg.ver)

/-- the single states / context states an event delivers to the consumer -/
def eventStates : Event → List SState
  | .report r => allStates r
  | .reloadBegin => []
  | .reloadEnd snap _ => snap.states

def eventCStates : Event → List CState
  | .report r => allCStates r
  | .reloadBegin => []
  | .reloadEnd snap ctx2 => snap.cstates ++ ctx2

/-- what a state / context report (not a description modification report) delivers is already there -/
def StatesCovered (c : Core) (r : Report) : Prop :=
  if r.kind = .context then ∀ x ∈ r.cstates, Covered (·.h) (·.sv) c.tabs.cstates x
  else ∀ x ∈ r.states, Covered (·.dh) (·.sv) c.tabs.states x

/-- the part is already reflected by the tables: applying it (again) changes nothing -/
def partSettled (t : Tables) (p : DescrPart) : Prop :=
  match p.mod with
  | .create =>
    lookupBy (·.handle) t.descrs p.descr.handle = some p.descr ∧
    (∀ x ∈ p.states, Covered (·.dh) (·.sv) t.states x) ∧ (∀ x ∈ p.cstates, Covered (·.h) (·.sv) t.cstates x)
  | .update =>
    (∀ old, lookupBy (·.handle) t.descrs p.descr.handle = some old →
      old = { p.descr with parent := old.parent, mds := old.mds }) ∧
    (p.descr.kind = Kind.context → ∀ s ∈ t.cstates, s.dh = p.descr.handle →
      s.h ∈ (p.cstates.filter (fun x => x.dh == p.descr.handle)).map (·.h)) ∧
    (∀ x ∈ p.states, lookupBy (·.dh) t.states x.dh = none ∨ Covered (·.dh) (·.sv) t.states x) ∧
    (∀ x ∈ p.cstates, lookupBy (·.h) t.cstates x.h = none ∨ Covered (·.h) (·.sv) t.cstates x)
  | .delete => lookupBy (·.handle) t.descrs p.descr.handle = none

/-- every part of the description modification report is already reflected by the tables -/
def Settled (t : Tables) (r : Report) : Prop := ∀ p ∈ r.parts, partSettled t p

/-! ### C01: what the reports of one provider transaction have to say about the change `p → p'`

`p`, `p'` are the provider content (version group + the three tables, `source_mds` forgotten) before and after one
committed transaction, `rs` the reports the provider sent for it, in emission order.  `reportsDescribe` is the
(decidable) contract between the provider side (C04 proves that the provider model satisfies it; the harness
evaluates it on every transaction of the real provider) and the consumer side (C01 `mirror`). -/

def stateReportStates (rs : List Report) : List SState :=
  (rs.filter (fun r => r.kind != .description && r.kind != .context)).flatMap (·.states)

def contextReportStates (rs : List Report) : List CState :=
  (rs.filter (fun r => r.kind == .context)).flatMap (·.cstates)

def descrParts (rs : List Report) : List DescrPart :=
  (rs.filter (fun r => r.kind == .description)).flatMap (·.parts)

def deletedHandles (ps : List DescrPart) : List Handle := partHandles .delete ps

/-- states carried by CREATE / UPDATE parts -/
def partStates (ps : List DescrPart) : List SState := (ps.filter (fun p => p.mod != .delete)).flatMap (·.states)
def partCStates (ps : List DescrPart) : List CState := (ps.filter (fun p => p.mod != .delete)).flatMap (·.cstates)

/-- DELETE parts come children first: when part `i` deletes `h`, every child of `h` was deleted by an earlier part,
    and nothing is created / updated below `h` -/
def flatDeletes (p : Core) : List DescrPart → List DescrPart → Bool
  | _, [] => true
  | before, q :: rest =>
    (q.mod != .delete ||
      (p.tabs.descrs.all (fun d => d.parent != some q.descr.handle ||
          before.any (fun b => b.mod == .delete && b.descr.handle == d.handle)) &&
       (before ++ rest).all (fun b => b.mod == .delete || b.descr.parent != some q.descr.handle))) &&
    flatDeletes p (before ++ [q]) rest

structure DescribeClauses where
  nonempty : Bool
  vg : Bool
  ids : Bool
  wf : Bool
  partsDistinct : Bool
  created : Bool
  updated : Bool
  deleted : Bool
  descrComplete : Bool
  descrRemoved : Bool
  flat : Bool
  stateSound : Bool
  stateNewer : Bool
  stateComplete : Bool
  stateRemoved : Bool
  deletedStatesGone : Bool
  cstateSound : Bool
  cstateNewer : Bool
  cstateComplete : Bool
  cstateRemoved : Bool
  cstateStable : Bool
  ctxUpdateLists : Bool
deriving Repr

def describeClauses (p p' : Core) (rs : List Report) : DescribeClauses :=
  let ps := descrParts rs
  let del := deletedHandles ps
  { nonempty := !rs.isEmpty
    vg := rs.all (fun r => r.vg == p'.vg)
    ids := decide (p.vg.ver < p'.vg.ver) && p.vg.seq == p'.vg.seq && p.vg.inst == p'.vg.inst
    wf := keysNodup (·.handle) p.tabs.descrs && keysNodup (·.dh) p.tabs.states && keysNodup (·.h) p.tabs.cstates &&
          keysNodup (·.handle) p'.tabs.descrs && keysNodup (·.dh) p'.tabs.states && keysNodup (·.h) p'.tabs.cstates
    partsDistinct := keysNodup (·.descr.handle) ps
    created := ps.all (fun q => q.mod != .create ||
      ((lookupBy (·.handle) p.tabs.descrs q.descr.handle).isNone &&
        lookupBy (·.handle) p'.tabs.descrs q.descr.handle == some q.descr))
    updated := ps.all (fun q => q.mod != .update ||
      (match lookupBy (·.handle) p.tabs.descrs q.descr.handle with
       | some old => old.parent == q.descr.parent && old.mds == q.descr.mds &&
                     lookupBy (·.handle) p'.tabs.descrs q.descr.handle == some q.descr
       | none => false))
    deleted := ps.all (fun q => q.mod != .delete ||
      ((lookupBy (·.handle) p.tabs.descrs q.descr.handle).isSome &&
        (lookupBy (·.handle) p'.tabs.descrs q.descr.handle).isNone))
    descrComplete := p'.tabs.descrs.all (fun d => lookupBy (·.handle) p.tabs.descrs d.handle == some d ||
      ps.any (fun q => q.mod != .delete && q.descr.handle == d.handle))
    descrRemoved := p.tabs.descrs.all (fun d => (lookupBy (·.handle) p'.tabs.descrs d.handle).isSome || del.contains d.handle)
    flat := flatDeletes p [] ps
    stateSound := (stateReportStates rs ++ partStates ps).all (fun s => lookupBy (·.dh) p'.tabs.states s.dh == some s)
    stateNewer := (stateReportStates rs ++ partStates ps).all (fun s =>
      match lookupBy (·.dh) p.tabs.states s.dh with
      | some old => decide (old.sv < s.sv)
      | none => true)
    stateComplete := p'.tabs.states.all (fun s => lookupBy (·.dh) p.tabs.states s.dh == some s ||
      (stateReportStates rs).contains s)
    stateRemoved := p.tabs.states.all (fun s => (lookupBy (·.dh) p'.tabs.states s.dh).isSome || del.contains s.dh)
    deletedStatesGone := del.all (fun h => (lookupBy (·.dh) p'.tabs.states h).isNone && p'.tabs.cstates.all (fun c => c.dh != h))
    cstateSound := (contextReportStates rs ++ partCStates ps).all (fun s => lookupBy (·.h) p'.tabs.cstates s.h == some s)
    cstateNewer := (contextReportStates rs ++ partCStates ps).all (fun s =>
      match lookupBy (·.h) p.tabs.cstates s.h with
      | some old => decide (old.sv < s.sv)
      | none => true)
    cstateComplete := p'.tabs.cstates.all (fun s => lookupBy (·.h) p.tabs.cstates s.h == some s ||
      (contextReportStates rs).contains s)
    -- a context state disappears through a DELETE part of its descriptor or through an UPDATE part of its (context)
    -- descriptor that does not list it any more
    cstateRemoved := p.tabs.cstates.all (fun s => (lookupBy (·.h) p'.tabs.cstates s.h).isSome || del.contains s.dh ||
      ps.any (fun q => q.mod == .update && q.descr.kind == Kind.context && q.descr.handle == s.dh &&
        !q.cstates.any (fun x => x.h == s.h && x.dh == q.descr.handle)))
    -- a context state stays with its descriptor
    cstateStable := p'.tabs.cstates.all (fun s =>
      match lookupBy (·.h) p.tabs.cstates s.h with
      | some old => old.dh == s.dh
      | none => true)
    -- an UPDATE part of a context descriptor lists every remaining context state of that descriptor
    ctxUpdateLists := ps.all (fun q => !(q.mod == .update && q.descr.kind == Kind.context) ||
      p'.tabs.cstates.all (fun c => c.dh != q.descr.handle ||
        q.cstates.any (fun x => x.h == c.h && x.dh == q.descr.handle))) }

def DescribeClauses.all (c : DescribeClauses) : Bool :=
  c.nonempty && c.vg && c.ids && c.wf && c.partsDistinct && c.created && c.updated && c.deleted &&
  c.descrComplete && c.descrRemoved && c.flat && c.stateSound && c.stateNewer && c.stateComplete && c.stateRemoved &&
  c.deletedStatesGone && c.cstateSound && c.cstateNewer && c.cstateComplete && c.cstateRemoved && c.cstateStable && c.ctxUpdateLists

/-- the reports `rs` describe the change `p → p'` exactly -/
def reportsDescribe (p p' : Core) (rs : List Report) : Bool := (describeClauses p p' rs).all

abbrev ReportsDescribe (p p' : Core) (rs : List Report) : Prop := reportsDescribe p p' rs = true

/-- same content: equal version group, lookup-wise equal tables -/
structure Mirror (c p : Core) : Prop where
  vg : c.vg = p.vg
  d : ∀ k, lookupBy (·.handle) c.tabs.descrs k = lookupBy (·.handle) p.tabs.descrs k
  s : ∀ k, lookupBy (·.dh) c.tabs.states k = lookupBy (·.dh) p.tabs.states k
  c : ∀ k, lookupBy (·.h) c.tabs.cstates k = lookupBy (·.h) p.tabs.cstates k

/-! ### C06: reports drawn from what a provider published -/

/-- the reports / Get answers a provider published, with their version groups -/
structure Source where
  vg : VersionGroup
  states : List SState
  cstates : List CState

def Source.ofReport (r : Report) : Source := ⟨r.vg, allStates r, allCStates r⟩
def Source.ofSnapshot (s : Snapshot) : Source := ⟨s.vg, s.states, s.cstates⟩

/-- what the provider guarantees about everything it publishes under one SequenceId (C02): the StateVersion of a
    state never decreases while the MdibVersion grows — also across deletion and re-creation of the handle -/
def Coherent (pool : List Source) : Prop :=
  ∀ a ∈ pool, ∀ b ∈ pool, a.vg.seq = b.vg.seq → a.vg.ver ≤ b.vg.ver →
    (∀ x ∈ a.states, ∀ y ∈ b.states, x.dh = y.dh → x.sv ≤ y.sv) ∧
    (∀ x ∈ a.cstates, ∀ y ∈ b.cstates, x.h = y.h → x.sv ≤ y.sv)

/-- every state the consumer holds was published at an MdibVersion that is not newer than the consumer's -/
def Justified (pool : List Source) (c : Core) : Prop :=
  (∀ x ∈ c.tabs.states, ∃ a ∈ pool, a.vg.seq = c.vg.seq ∧ a.vg.ver ≤ c.vg.ver ∧ x ∈ a.states) ∧
  (∀ x ∈ c.tabs.cstates, ∃ a ∈ pool, a.vg.seq = c.vg.seq ∧ a.vg.ver ≤ c.vg.ver ∧ x ∈ a.cstates)

instance (pool : List Source) : Decidable (Coherent pool) := by unfold Coherent; infer_instance
instance (pool : List Source) (c : Core) : Decidable (Justified pool c) := by unfold Justified; infer_instance

/-! ### lock discipline of the state machine (facts about the traced programs, `Generated/ConsumerLocks.lean`)

`step` treats `reloadEnd` (replay, clearing of the buffer, switch to `initialized`) as one atomic action and
`finishBuffered` as the second half of the pre-check.  That is justified by two facts about the code, which the
translator re-establishes from a dynamic trace on every run: in `reload_all` the write `_state = initialized` happens
while `_buffered_notifications_lock` is held, and `_pre_check_report_ok` reads `_state` again inside its lock section
before it appends to the buffer. -/

inductive LockAct
  | acq | rel            -- `_buffered_notifications_lock`
  | readState
  | writeState (m : Mode)
  | append               -- `_buffered_notifications.append`
deriving DecidableEq, Repr

/-- every switch to `initialized` happens inside a buffer-lock section -/
def switchInsideLock : Bool → List LockAct → Bool
  | _, [] => true
  | _, .acq :: r => switchInsideLock true r
  | _, .rel :: r => switchInsideLock false r
  | held, .writeState .initialized :: r => held && switchInsideLock held r
  | held, _ :: r => switchInsideLock held r

/-- every append to the buffer happens inside a lock section in which the state was read before -/
def recheckBeforeAppend : Bool → Bool → List LockAct → Bool
  | _, _, [] => true
  | _, _, .acq :: r => recheckBeforeAppend true false r
  | _, _, .rel :: r => recheckBeforeAppend false false r
  | held, _, .readState :: r => recheckBeforeAppend held held r
  | held, read, .append :: r => held && read && recheckBeforeAppend held read r
  | held, read, _ :: r => recheckBeforeAppend held read r

end Sdc.Consumer
