import SdcModel.MdibDescr
/-!
# M3 reports: TransactionResult → notifications

Transcription of `SdcProvider._send_episodic_reports`, `fill_episodic_report_body` /
`_separate_states_by_source_mds` (one report part per source MDS, in order of first appearance) and
`mk_description_modification_report_body` (one part per descriptor: updated, created, deleted).
-/
namespace Sdc.Mdib

/-- Python `defaultdict(list)` filled in a loop: groups in order of first appearance, members in order -/
def groupInsert {σ} (k : Handle) (x : σ) : List (Handle × List σ) → List (Handle × List σ)
  | [] => [(k, [x])]
  | (k', xs) :: rest => if k' == k then (k', xs ++ [x]) :: rest else (k', xs) :: groupInsert k x rest

def groupBy {σ} (key : σ → Handle) (l : List σ) : List (Handle × List σ) :=
  l.foldl (fun acc x => groupInsert (key x) x acc) []

structure DPart where
  mod : ModType
  parent : Option Handle
  mds : Option Handle
  descr : Descr
  states : List SState
  cstates : List CState
deriving Repr, DecidableEq

inductive Rep
  | descr (vg : VersionGroup) (parts : List DPart)
  | states (kind : ReportKind) (vg : VersionGroup) (parts : List (Handle × List SState))
  | ctx (vg : VersionGroup) (parts : List (Handle × List CState))
deriving Repr, DecidableEq

def Rep.vg : Rep → VersionGroup
  | .descr vg _ => vg | .states _ vg _ => vg | .ctx vg _ => vg

def TxResult.allS (r : TxResult) : List SState := r.metric ++ r.alert ++ r.comp ++ r.op ++ r.rt

def mkDPart (r : TxResult) (m : ModType) (d : Descr) : DPart :=
  { mod := m, parent := d.parent, mds := d.mds, descr := d,
    states := r.allS.filter (fun s => s.dh == d.handle), cstates := r.ctx.filter (fun c => c.dh == d.handle) }

/-- `source_mds` of a state = source mds of the descriptor it refers to (tables after the commit) -/
def mdsOfState (t : Tables) (dh : Handle) : Option Handle := (findD t dh).bind (·.mds)

/-- all states of the list have a source mds (otherwise `_separate_states_by_source_mds` raises ValueError) -/
def allHaveMds (t : Tables) (dhs : List Handle) : Bool := dhs.all (fun h => (mdsOfState t h).isSome)

def stateReport (t : Tables) (vg : VersionGroup) (k : ReportKind) (l : List SState) : List Rep :=
  if l.isEmpty then [] else [.states k vg (groupBy (fun s => (mdsOfState t s.dh).getD 0) l)]

/-- the notifications of one committed transaction, in emission order -/
def mkReports (t : Tables) (vg : VersionGroup) (r : TxResult) : List Rep :=
  (if r.descrUpdated.isEmpty && r.descrCreated.isEmpty && r.descrDeleted.isEmpty then [] else
    [.descr vg (r.descrUpdated.map (mkDPart r .update) ++ r.descrCreated.map (mkDPart r .create)
                ++ r.descrDeleted.map (mkDPart r .delete))])
  ++ stateReport t vg .metric r.metric
  ++ stateReport t vg .alert r.alert
  ++ stateReport t vg .component r.comp
  ++ (if r.ctx.isEmpty then [] else [.ctx vg (groupBy (fun c => (mdsOfState t c.dh).getD 0) r.ctx)])
  ++ stateReport t vg .operational r.op
  ++ stateReport t vg .waveform r.rt

end Sdc.Mdib
