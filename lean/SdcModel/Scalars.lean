import SdcModel.Fp64
/-!
# C18 — scalar XML value converters (`xml_types/dataconverters.py`, `xml_types/isoduration.py`)

Strings are lists of Unicode code points (`Str`); the driver converts at the boundary.
Transcribed as the code is *after* the `fix:` commits 02af939, 4314acb, f03f008 (see known_findings/C18.json):

* `TimestampConverter`: `to_py s = int(lexical(s)) / 1000`, `to_xml x = str(round(x * 1000))`
* `IntegerConverter`:   `to_py s = int(lexical(s))`, `to_xml = str`
* `DecimalConverter` (USE_DECIMAL_TYPE, `Decimal` values): `to_py s = Decimal(lexical(s))`,
  `to_xml d` = `format(d, 'f')`, fraction cut to `18 - #digits(head)` characters, trailing zeros removed
* `BooleanConverter`:   `to_py s = s in ('true', '1')` (never rejects — known finding), `to_xml`
* `EnumConverter`:      `to_py s = klass(s)` (ValueError unless a literal), `to_xml = .value`
* `isoduration.duration_string / parse_duration` incl. the float steps of `datetime.timedelta`
  (`modf`, `frac * 1e6`, round-half-even) on the bit-exact `Fp64` model.
-/
namespace Sdc.Scalars
open Sdc.Fp64

abbrev Str := List Nat

inductive Err | value | overflow
deriving DecidableEq, Repr

/-! ### digits -/

def isDigit (c : Nat) : Bool := decide (48 ≤ c ∧ c ≤ 57)
def digitVal (c : Nat) : Nat := c - 48

/-- value of an ASCII digit string, most significant digit first (`int(ds)`) -/
def digitsVal (ds : Str) : Nat := ds.foldl (fun acc c => acc * 10 + digitVal c) 0

/-- decimal digits of `n`, least significant first (`f` = fuel) -/
def natDigitsRev : Nat → Nat → Str
  | 0, _ => []
  | f+1, n => if n < 10 then [48 + n] else (48 + n % 10) :: natDigitsRev f (n / 10)

/-- `str(n)` for a non-negative integer -/
def natStr (n : Nat) : Str := (natDigitsRev (n+1) n).reverse

/-- `str(i)` -/
def intStr (i : Int) : Str := if i < 0 then 45 :: natStr i.natAbs else natStr i.natAbs

/-! ### lexical layer added by the fix: `_lexical_value(pattern, xml_value)` -/

/-- `' \t\n\r'` -/
def isWs (c : Nat) : Bool := c == 32 || c == 9 || c == 10 || c == 13

/-- `xml_value.strip(' \t\n\r')` -/
def xmlStrip (s : Str) : Str := ((s.dropWhile isWs).reverse.dropWhile isWs).reverse

/-- optional sign: `(is '-', rest)` -/
def splitSign (s : Str) : Bool × Str :=
  match s with
  | [] => (false, [])
  | c :: r => if c = 45 then (true, r) else if c = 43 then (false, r) else (false, c :: r)

/-- `re.fullmatch(r'[+-]?[0-9]+', t)` -/
def intLex (t : Str) : Bool := !(splitSign t).2.isEmpty && (splitSign t).2.all isDigit

/-- `IntegerConverter.to_py` (xml_value not None) -/
def intToPy (s : Str) : Except Err Int :=
  let t := xmlStrip s
  if intLex t then
    .ok (if (splitSign t).1 then - (digitsVal (splitSign t).2 : Int) else (digitsVal (splitSign t).2 : Int))
  else .error .value

def intToXml (i : Int) : Str := intStr i

/-! ### timestamps -/

/-- `int(n) / 1000` -/
def tsPy (n : Int) : Fp := rnRat (decide (n < 0)) n.natAbs 1000

/-- `round(x * 1000)` -/
def tsXml (x : Fp) : Int := roundInt (rnMul x 1000)

/-- `TimestampConverter.to_py` -/
def tsToPy (s : Str) : Except Err Fp := (intToPy s).map tsPy

/-- `TimestampConverter.to_xml` for a float -/
def tsToXml (x : Fp) : Str := intStr (tsXml x)

/-! ### booleans (as the code is: no rejection) -/

def litTrue : Str := [116, 114, 117, 101]
def litFalse : Str := [102, 97, 108, 115, 101]

/-- `BooleanConverter.to_py`: `xml_value in ('true', '1')` -/
def boolToPy (s : Str) : Except Err Bool := .ok (s == litTrue || s == [49])

def boolToXml (b : Bool) : Str := if b then litTrue else litFalse

/-! ### enums: `klass(xml_value)` / `.value` over the list of literals of the class -/

/-- position of the first literal equal to `s` -/
def findLit : List Str → Str → Option Nat
  | [], _ => none
  | l :: ls, s => if l = s then some 0 else (findLit ls s).map (· + 1)

def enumToPy (lits : List Str) (s : Str) : Except Err Nat :=
  match findLit lits s with
  | some i => .ok i
  | none => .error .value

def enumToXml (lits : List Str) (i : Nat) : Str := lits.getD i []

/-! ### decimals -/

/-- `decimal.Decimal` finite value `(-1)^neg · coeff · 10^exp` (`as_tuple()`) -/
structure Dec where
  neg : Bool
  coeff : Nat
  exp : Int
deriving DecidableEq, Repr

/-- the three parts of `[+-]?(?:[0-9]+(?:\.[0-9]*)?|\.[0-9]+)`: sign, integer digits, fraction digits -/
def decLex (t : Str) : Option (Bool × Str × Str) :=
  let r := (splitSign t).2
  let ip := r.takeWhile isDigit
  match r.dropWhile isDigit with
  | [] => if ip.isEmpty then none else some ((splitSign t).1, ip, [])
  | c :: fr =>
    if c = 46 ∧ fr.all isDigit ∧ ¬ (ip.isEmpty ∧ fr.isEmpty) then some ((splitSign t).1, ip, fr) else none

/-- `DecimalConverter.to_py` (USE_DECIMAL_TYPE): `Decimal(lexical(s))` -/
def decToPy (s : Str) : Except Err Dec :=
  match decLex (xmlStrip s) with
  | some (neg, ip, fr) => .ok ⟨neg, digitsVal (ip ++ fr), - (fr.length : Int)⟩
  | none => .error .value

/-- `[elem_to_py(v) for v in items]` -/
def decItems : List Str → Except Err (List Dec)
  | [] => .ok []
  | t :: ts =>
    match decToPy t with
    | .error e => .error e
    | .ok d =>
      match decItems ts with
      | .error e => .error e
      | .ok ds => .ok (d :: ds)

/-- tokens of a list valued attribute: `[v for v in xml_value.split(' ') if v]` -/
def listTokens (s : Str) : List Str := (s.splitOn 32).filter (fun t => !t.isEmpty)

/-- `DecimalListAttributeProperty.get_py_value_from_node` for a present attribute -/
def decListToPy (s : Str) : Except Err (List Dec) := decItems (listTokens s)

/-- `format(d, 'f')` -/
def decFormatF (d : Dec) : Str :=
  let sign : Str := if d.neg then [45] else []
  let ds := natStr d.coeff
  if 0 ≤ d.exp then
    if d.coeff = 0 then sign ++ [48] else sign ++ ds ++ List.replicate d.exp.toNat 48
  else
    let k := (-d.exp).toNat
    if k < ds.length then sign ++ ds.take (ds.length - k) ++ [46] ++ ds.drop (ds.length - k)
    else sign ++ [48, 46] ++ List.replicate (k - ds.length) 48 ++ ds

/-- python slice `l[:k]` for a possibly negative `k` -/
def pySliceTo (l : Str) (k : Int) : Str :=
  if 0 ≤ k then l.take k.toNat else l.take (l.length - (-k).toNat)

/-- `while '.' in x and x[-1] in ('0', '.'): x = x[:-1]` on the reversed string -/
def stripRev : Str → Str
  | [] => []
  | c :: r => if (c = 48 ∨ c = 46) ∧ 46 ∈ (c :: r) then stripRev r else c :: r

/-- `head.lstrip('+-0')` -/
def lstripSignZero (h : Str) : Str := h.dropWhile (fun c => c == 43 || c == 45 || c == 48)

/-- the digit limiting part of `DecimalConverter.to_xml` applied to a string -/
def limitDigits (x : Str) : Str :=
  if 46 ∈ x then
    let head := x.takeWhile (· ≠ 46)
    let tail := (x.dropWhile (· ≠ 46)).drop 1
    let tail' := pySliceTo tail (18 - (lstripSignZero head).length)
    let y := if tail'.isEmpty then head else head ++ [46] ++ tail'
    (stripRev y.reverse).reverse
  else x

/-- `DecimalConverter.to_xml` for a `Decimal` -/
def decToXml (d : Dec) : Str := limitDigits (decFormatF d)

/-! ### durations -/

def usPerSec : Nat := 1000000
def usPerDay : Nat := 86400 * usPerSec
def maxDays : Nat := 999999999

/-- microseconds contributed by a float `seconds=` argument of `datetime.timedelta` (C `accum`):
    whole seconds exactly, `y = frac * 1e6` as a float, whole part of `y`, and the leftover fraction of `y` -/
def floatUsParts (x : Fp) : Nat × Nat × Nat :=
  let y := fracMul x usPerSec
  (floorNat x * usPerSec + floorNat y, valN y % valD y, valD y)

/-- `timedelta(hours=h, minutes=m, seconds=x)` in microseconds: leftover rounded half-to-even on the total -/
def timedeltaUs (h m : Nat) (x : Fp) : Except Err Nat :=
  let (whole, r, d) := floatUsParts x
  let t := h * 3600 * usPerSec + m * 60 * usPerSec + whole
  let us := if 2 * r < d then t else if d < 2 * r then t + 1 else if t % 2 = 0 then t else t + 1
  if us / usPerDay ≤ maxDays then .ok us else .error .overflow

def zfill6 (s : Str) : Str := List.replicate (6 - s.length) 48 ++ s

/-- `s.rstrip('0')` -/
def rstrip0 (s : Str) : Str := (s.reverse.dropWhile (· == 48)).reverse

/-- the formatting part of `duration_string`, from the integer microsecond count `total_us` -/
def durationStringUs (total : Nat) : Str :=
  let s := total / usPerSec
  let us := total % usPerSec
  let mi := s / 60
  let sec := s % 60
  let h := mi / 60
  let min := mi % 60
  let r : Str := [80, 84]
    ++ (if h > 0 then natStr h ++ [72] else [])
    ++ (if min > 0 then natStr min ++ [77] else [])
    ++ (if sec > 0 then natStr sec else [])
    ++ (if us > 0 then (if sec = 0 then [48] else []) ++ [46] ++ rstrip0 (zfill6 (natStr us)) ++ [83]
        else if sec > 0 then [83] else [])
  if r = [80, 84] then [80, 84, 48, 83] else r

/-- `duration_string(x)` for a non-negative float -/
def durationString (x : Fp) : Except Err Str :=
  if x.m = 0 then .ok [80, 84, 48, 83] else (timedeltaUs 0 0 x).map durationStringUs

/-- `(\d+)<term>` if present: digits and the rest behind the terminator -/
def takeComp (term : Nat) (s : Str) : Option (Str × Str) :=
  let d := s.takeWhile isDigit
  match s.dropWhile isDigit with
  | c :: r => if c = term ∧ ¬ d.isEmpty then some (d, r) else none
  | [] => none

/-- `(?:(\d+)(?:\.(\d+))?S)?`: seconds digits, fraction digits, rest -/
def takeSeconds (s : Str) : Option (Str × Str × Str) :=
  let d := s.takeWhile isDigit
  if d.isEmpty then none else
  match s.dropWhile isDigit with
  | c :: r =>
    if c = 83 then some (d, [], r)
    else if c = 46 then
      match takeComp 83 r with
      | some (f, r') => some (d, f, r')
      | none => none
    else none
  | [] => none

/-- optional group `(?:(\d+)<term>)?`: the digits if present, and the rest -/
def optComp (term : Nat) (s : Str) : Option Str × Str :=
  match takeComp term s with
  | some (d, r') => (some d, r')
  | none => (none, s)

/-- optional group `(?:(\d+)(?:\.(\d+))?S)?` -/
def optSeconds (s : Str) : Option (Str × Str) × Str :=
  match takeSeconds s with
  | some (d, f, r') => (some (d, f), r')
  | none => (none, s)

/-- `$` also matches before one trailing newline -/
def dropNewline (s : Str) : Str := if s.getLast? = some 10 then s.dropLast else s

/-- the part behind `PT` -/
def durationBody (s : Str) : Option Str :=
  match dropNewline s with
  | [] => none
  | p :: rest => match rest with
    | [] => none
    | t :: r => if p = 80 ∧ t = 84 then some r else none

/-- the groups of `^PT(?:(\d+)H)?(?:(\d+)M)?(?:(\d+)(?:\.(\d+))?S)?(?<!PT)$` (ASCII digits):
    hours, minutes, (seconds, fraction) (`none` = group absent, fraction `[]` = absent) -/
def durationGroups (s : Str) : Option (Option Str × Option Str × Option (Str × Str)) :=
  match durationBody s with
  | none => none
  | some r =>
    let hr := optComp 72 r
    let mr := optComp 77 hr.2
    let sr := optSeconds mr.2
    if sr.2.isEmpty ∧ ¬ r.isEmpty then some (hr.1, mr.1, sr.1) else none

/-- `float(f'{seconds}.{fraction}')` (correctly rounded) -/
def floatOfDecimal (sec frac : Str) : Fp :=
  rnRat false (digitsVal (sec ++ frac)) (10 ^ frac.length)

/-- microseconds of the parsed duration: `timedelta(hours, minutes, seconds=float('s.f'))` -/
def parseDurationUs (s : Str) : Except Err Nat :=
  match durationGroups s with
  | none => .error .value
  | some (h, m, sf) =>
    let x := match sf with
      | some (d, f) => floatOfDecimal d (if f.isEmpty then [48] else f)
      | none => floatOfDecimal [48] [48]
    timedeltaUs ((h.map digitsVal).getD 0) ((m.map digitsVal).getD 0) x

/-- `parse_duration(s)`: `.total_seconds()` = microseconds / 10^6 as a float -/
def parseDuration (s : Str) : Except Err Fp :=
  (parseDurationUs s).map (fun us => rnRat false us usPerSec)

end Sdc.Scalars
