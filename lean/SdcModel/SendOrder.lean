/-!
# Interleaving semantics of committing writer threads (C04: reports are delivered in MdibVersion order)

A thread is a list of atomic actions; a configuration holds the lock owners, the global MdibVersion, the send log
(what the subscription managers were handed, in order) and every thread's remaining program plus the version its current
commit created (`mdib_version_group` is read by the report code of that commit). ANY enabled thread may move.
Lock 1 is `mdib_lock` (lock 0 = `_tr_lock`); re-entrant inner acquire/release pairs are collapsed by the tracer.
-/
namespace Sdc.SendOrder

inductive Act | acq (l : Nat) | rel (l : Nat) | incVer | send
deriving DecidableEq, Repr

/-- the lock that has to protect version write and send -/
def L : Nat := 1

/-- `wl held fresh prog`: every `incVer` happens while `L` is held, every `send` while `L` is held and after an
    `incVer` of the same critical section -/
def wl : Bool → Bool → List Act → Bool
  | _, _, [] => true
  | held, fresh, .acq l :: r => if l = L then (!held && wl true false r) else wl held fresh r
  | held, fresh, .rel l :: r => if l = L then (held && wl false false r) else wl held fresh r
  | held, _, .incVer :: r => held && wl held true r
  | held, fresh, .send :: r => held && fresh && wl held fresh r

def WellLocked (p : List Act) : Prop := wl false false p = true
instance (p : List Act) : Decidable (WellLocked p) := by unfold WellLocked; infer_instance

structure Thr where
  prog : List Act
  mine : Nat            -- the MdibVersion created by this thread's current commit
deriving Repr

structure Cfg where
  owner : Nat → Option Nat
  ver : Nat
  log : List Nat
  thr : Nat → Thr

def setThr (c : Cfg) (i : Nat) (t : Thr) : Nat → Thr := fun j => if j = i then t else c.thr j

inductive Step : Cfg → Cfg → Prop
  | acq (c : Cfg) (i l : Nat) (r : List Act) : (c.thr i).prog = .acq l :: r → c.owner l = none →
      Step c { c with owner := fun k => if k = l then some i else c.owner k,
                      thr := setThr c i { (c.thr i) with prog := r } }
  | rel (c : Cfg) (i l : Nat) (r : List Act) : (c.thr i).prog = .rel l :: r → c.owner l = some i →
      Step c { c with owner := fun k => if k = l then none else c.owner k,
                      thr := setThr c i { (c.thr i) with prog := r } }
  | incVer (c : Cfg) (i : Nat) (r : List Act) : (c.thr i).prog = .incVer :: r →
      Step c { c with ver := c.ver + 1, thr := setThr c i { prog := r, mine := c.ver + 1 } }
  | send (c : Cfg) (i : Nat) (r : List Act) : (c.thr i).prog = .send :: r →
      Step c { c with log := c.log ++ [(c.thr i).mine], thr := setThr c i { (c.thr i) with prog := r } }

inductive Reach (c₀ : Cfg) : Cfg → Prop
  | refl : Reach c₀ c₀
  | step {c c' : Cfg} : Reach c₀ c → Step c c' → Reach c₀ c'

end Sdc.SendOrder
