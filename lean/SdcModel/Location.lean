import SdcModel.Basic.Url
/-!
# M `Location` — SDC location scopes (src/sdc11073/location.py, provider/scopesfactory.py, statecontainers.py)

Transcription of `SdcLocation.scope_string`, `from_scope_string`, `__contains__`, `_scope_string_matches`,
`_service_matches`, `filter_services_inside`, and of the scope a provider publishes for its location:
`LocationContextStateContainer.update_from_sdc_location` (`_loc_extension_segment`) followed by
`scopesfactory.mk_scopes` / `_query_from_location_state`. Strings are UTF-8 byte lists; `none` is Python `None`.
-/
namespace Sdc.Location
open Sdc.Percent Sdc.Url

structure Loc where
  root : Bytes
  fac : Option Bytes
  bldng : Option Bytes
  flr : Option Bytes
  poc : Option Bytes
  rm : Option Bytes
  bed : Option Bytes
deriving DecidableEq, Repr

inductive Err
  | urlScheme    -- location.UrlSchemeError
  | valueError   -- ValueError (tuple unpacking of the path, urlsplit, empty extension segment)
deriving DecidableEq, Repr


/-- `'sdc.ctxt.loc'` -/
def scheme : Bytes := [115, 100, 99, 46, 99, 116, 120, 116, 46, 108, 111, 99]
/-- `'sdc.ctxt.loc.detail'` -/
def defaultRoot : Bytes := scheme ++ [46, 100, 101, 116, 97, 105, 108]

def kFac : Bytes := [102, 97, 99]
def kBldng : Bytes := [98, 108, 100, 110, 103]
def kFlr : Bytes := [102, 108, 114]
def kPoc : Bytes := [112, 111, 99]
def kRm : Bytes := [114, 109]
def kBed : Bytes := [98, 101, 100]

def optValid : Option Bytes → Bool
  | none => true
  | some v => Utf8.valid v

/-- every string of the location is a Unicode string (valid UTF-8) -/
def Loc.valid (l : Loc) : Bool :=
  Utf8.valid l.root && optValid l.fac && optValid l.bldng && optValid l.flr && optValid l.poc && optValid l.rm
    && optValid l.bed

/-- `url_elements` with the values of a location, in hierarchy order -/
def Loc.elems (l : Loc) : List (Bytes × Option Bytes) :=
  [(kFac, l.fac), (kBldng, l.bldng), (kFlr, l.flr), (kPoc, l.poc), (kRm, l.rm), (kBed, l.bed)]

/-- the query dict: every element that `is not None` -/
def present (es : List (Bytes × Option Bytes)) : List (Bytes × Bytes) :=
  es.filterMap fun e => e.2.map fun v => (e.1, v)

/-- `SdcLocation(root=root, **{k: f(k)})` -/
def ofLookup (root : Bytes) (f : Bytes → Option Bytes) : Loc :=
  ⟨root, f kFac, f kBldng, f kFlr, f kPoc, f kRm, f kBed⟩

/-- the path of `scope_string`: `/<quote(root, safe='')>/<quote(fac)>%2F…%2F<quote(bed)>` -/
def scopePath (l : Loc) : Bytes :=
  47 :: (quote l.root ++ (47 :: join [37, 50, 70] (l.elems.map fun e => quote (e.2.getD []))))

/-- `urlunparse(ParseResult(scheme, None, path, None, query, None))` for a scheme outside `uses_netloc` -/
def unparse (scheme path query : Bytes) : Bytes :=
  scheme ++ (58 :: (path ++ (if query = [] then [] else 63 :: query)))

/-- `SdcLocation.scope_string` -/
def scopeString (l : Loc) : Bytes :=
  unparse scheme (scopePath l) (urlencode quotePlus (present l.elems))

/-- `SdcLocation.from_scope_string` -/
def fromScopeString (chk : Bytes → Bool) (s : Bytes) : Except Err Loc :=
  match urlsplit chk s with
  | none => .error .valueError
  | some src =>
    if lower src.scheme ≠ scheme then .error .urlScheme
    else match splitOn 47 src.path with
      | [_, root, _] => .ok (ofLookup (unquoteStr root) (dictGet (parseQsl true src.query)))
      | _ => .error .valueError

def elemOk (mine other : Option Bytes) : Bool :=
  match mine with
  | none => true
  | some v => other == some v

/-- `other in self` (`__contains__`) -/
def contains (self other : Loc) : Bool :=
  self.root == other.root && elemOk self.fac other.fac && elemOk self.bldng other.bldng && elemOk self.flr other.flr
    && elemOk self.poc other.poc && elemOk self.rm other.rm && elemOk self.bed other.bed

/-- `_scope_string_matches`: `UrlSchemeError` and `ValueError` mean "no match"; any other exception would propagate -/
def scopeStringMatches (chk : Bytes → Bool) (self : Loc) (s : Bytes) : Except Err Bool :=
  match fromScopeString chk s with
  | .ok other => .ok (contains self other)
  | .error .urlScheme => .ok false
  | .error .valueError => .ok false

/-- `any(self._scope_string_matches(scope) for scope in scopes)`: stops at the first match -/
def anyMatches (chk : Bytes → Bool) (self : Loc) : List Bytes → Except Err Bool
  | [] => .ok false
  | s :: rest =>
    match scopeStringMatches chk self s with
    | .ok true => .ok true
    | .ok false => anyMatches chk self rest
    | .error e => .error e

/-- `_service_matches`; a service is represented by its scopes (`none` = `service.scopes is None`) -/
def serviceMatches (chk : Bytes → Bool) (self : Loc) : Option (List Bytes) → Except Err Bool
  | none => .ok false
  | some scopes => anyMatches chk self scopes

/-- `filter_services_inside`; `scopesOf` projects a service object to its scopes -/
def filterInside {α : Type} (chk : Bytes → Bool) (self : Loc) (scopesOf : α → Option (List Bytes)) :
    List α → Except Err (List α)
  | [] => .ok []
  | s :: rest =>
    match serviceMatches chk self (scopesOf s) with
    | .error e => .error e
    | .ok b =>
      match filterInside chk self scopesOf rest with
      | .error e => .error e
      | .ok r => .ok (if b then s :: r else r)

/-! ## what a provider publishes for its location -/

/-- `_loc_extension_segment`: quoted elements joined with `/`; `'/////'` (nothing set) is rejected -/
def locExtension (l : Loc) : Except Err Bytes :=
  let ext := join [47] (l.elems.map fun e => quote (e.2.getD []))
  if ext = [47, 47, 47, 47, 47] then .error .valueError else .ok ext

/-- one context scope of `mk_scopes` for an identification `(root, extension)` and a query -/
def contextScope (scheme root ext query : Bytes) : Bytes :=
  scheme ++ (58 :: ((47 :: (quote root ++ (if ext = [] then [] else 47 :: quote ext))) ++ (if query = [] then [] else 63 :: query)))

/-- `update_from_sdc_location` (identification root is always `sdc.ctxt.loc.detail`, the six elements are copied)
    then `mk_scopes`: the location scope the provider publishes -/
def published (l : Loc) : Except Err Bytes :=
  match locExtension l with
  | .error e => .error e
  | .ok ext => .ok (contextScope scheme defaultRoot ext (urlencode quote (present l.elems)))

/-! ## updating an existing location context state -/

/-- the part of a `LocationContextStateContainer` the published scope depends on: the six `LocationDetail` attributes
    (kept as a `Loc` with the fixed identification root) and the extension of its identification (`none`: the state has
    no Identification yet) -/
structure LocState where
  detail : Loc
  ext : Option Bytes
deriving DecidableEq, Repr

/-- a fresh state container: `LocationDetail()` without attributes, no identification -/
def LocState.fresh : LocState := ⟨⟨defaultRoot, none, none, none, none, none, none⟩, none⟩

/-- `update_from_sdc_location` on an existing state object: all six `LocationDetail` attributes are overwritten (an
    absent element clears the attribute), then the identification is replaced; when `_loc_extension_segment` raises
    (nothing set) the attributes are already overwritten and the old identification stays -/
def updateFromLocation (st : LocState) (l : Loc) : LocState × Option Err :=
  let d : Loc := { l with root := defaultRoot }
  match locExtension l with
  | .error e => ({ st with detail := d }, some e)
  | .ok ext => (⟨d, some ext⟩, none)

/-- the location scope `mk_scopes` publishes for an associated state (`ValueError` without identification) -/
def publishedOfState (st : LocState) : Except Err Bytes :=
  match st.ext with
  | none => .error .valueError
  | some ext => .ok (contextScope scheme defaultRoot ext (urlencode quote (present st.detail.elems)))

/-- the same update inside a context state transaction of the MDIB (`xtra.set_location`, or `get_context_state` +
    `update_from_sdc_location` in `context_state_transaction`): an exception aborts the transaction, the MDIB keeps the
    old state -/
def txUpdate (st : LocState) (l : Loc) : LocState :=
  match updateFromLocation st l with
  | (st', none) => st'
  | (_, some _) => st

/-- a history of location changes of one provider -/
def runTx (st : LocState) (ls : List Loc) : LocState := ls.foldl txUpdate st

end Sdc.Location
