import SdcModel.UdpRepeat
/-!
# M `UdpSendLoop` — the send loop of the discovery networking thread

Transcription of `NetworkingThread._run_send` together with the bounded priority queue it drains
(`_send_queue`, ordered by the dataclass order of `_EnqueuedMessage`: `send_time` first, then `repeat`; the message itself
is not compared) and of what `schedule_stop` does to it (src/sdc11073/wsdiscovery/networkingthread.py).

Times are integer microseconds. One loop iteration:

* queue empty: leave if the quit event is set, otherwise `time.sleep(SEND_LOOP_IDLE_SLEEP)`;
* head of the queue due (`send_time <= time.time()`): take it off the queue and hand it to the socket (no model time passes);
* otherwise `time.sleep(SEND_LOOP_BUSY_SLEEP)`.

While the loop sleeps other threads call `add_outbound_message` (an `Add`: at its own time `at`, with the two random draws) and
`schedule_stop` (at `quitAt`); an add at or after the stop is dropped by `_repeated_enqueue_msg`, everything enqueued before
is still transmitted at its time (the loop condition is `not quit or not empty`).
-/
namespace Sdc.UdpSendLoop
open Sdc.UdpRepeat

structure Entry where
  sendTime : Nat   -- µs
  rep : Nat        -- 1 = first transmission
  msg : Nat
deriving DecidableEq, Repr

/-- dataclass order of `_EnqueuedMessage`: (`send_time`, `repeat`) lexicographic -/
def keyLe (a b : Entry) : Bool := a.sendTime < b.sendTime || (a.sendTime == b.sendTime && a.rep ≤ b.rep)

/-- `PriorityQueue.put`: the queue is kept as a list sorted by key (the head is what `queue[0]` / `get()` see) -/
def insertE (e : Entry) : List Entry → List Entry
  | [] => [e]
  | x :: xs => if keyLe e x then e :: x :: xs else x :: insertE e xs

def enqueue (q : List Entry) (es : List Entry) : List Entry := es.foldl (fun q e => insertE e q) q

/-- one call of `add_outbound_message` -/
structure Add where
  at_ : Nat        -- µs: `time.time()` inside `_repeated_enqueue_msg`
  msg : Nat
  p : Params       -- ms
  init : Nat       -- ms, the `randint` draw
  d : Nat          -- ms, the `randrange` draw
deriving Repr

/-- the entries `_repeated_enqueue_msg` puts on the queue -/
def stamp (a : Add) : Nat → List Nat → List Entry
  | _, [] => []
  | i, t :: ts => ⟨a.at_ + 1000 * t, i, a.msg⟩ :: stamp a (i + 1) ts

def entriesOf (a : Add) : List Entry := stamp a 1 (schedule a.p a.init a.d)

structure Cfg where
  busy : Nat   -- SEND_LOOP_BUSY_SLEEP in µs
  idle : Nat   -- SEND_LOOP_IDLE_SLEEP in µs
deriving Repr

structure St where
  now : Nat
  q : List Entry
  adds : List Add          -- calls that have not happened yet
  quitAt : Nat             -- time of `schedule_stop`
  quit : Bool
  out : List (Nat × Entry) -- transmissions (instant, entry), latest first
deriving Repr

/-- the adds that happen up to `t` and are not dropped because of the stop -/
def accepted (quitAt t : Nat) (adds : List Add) : List Add := adds.filter (fun a => a.at_ ≤ t && a.at_ < quitAt)

/-- the thread sleeps for `dt`; meanwhile the other threads do what is due -/
def sleep (dt : Nat) (s : St) : St :=
  let t := s.now + dt
  { s with now := t,
           q := enqueue s.q ((accepted s.quitAt t s.adds).flatMap entriesOf),
           adds := s.adds.filter (fun a => !(a.at_ ≤ t)),
           quit := s.quit || s.quitAt ≤ t }

/-- one iteration of the `while` loop; `none` = the loop condition is false -/
def step (c : Cfg) (s : St) : Option St :=
  match s.q with
  | [] => if s.quit then none else some (sleep c.idle s)
  | e :: rest => if e.sendTime ≤ s.now then some { s with q := rest, out := (s.now, e) :: s.out } else some (sleep c.busy s)

/-- run at most `fuel` iterations; the Bool says that the loop has ended -/
def run (c : Cfg) : Nat → St → St × Bool
  | 0, s => (s, false)
  | n + 1, s => match step c s with
    | none => (s, true)
    | some s' => run c n s'

/-- start state: what happened up to time 0 has happened -/
def start (adds : List Add) (quitAt : Nat) : St :=
  sleep 0 { now := 0, q := [], adds := adds, quitAt := quitAt, quit := false, out := [] }

end Sdc.UdpSendLoop

/-! ## life cycle of a discovery node (`WSDiscovery.start / stop / publish_service / clear_service`)

A node owns at most one networking thread object. `start` creates one if there is none, `stop` sends the Bye of every local
service, stops the thread (`schedule_stop`; `join` waits for the send loop to drain) and forgets it. Every message is handed
to the thread object the node refers to at that time; a thread that has been stopped drops what it is handed. -/
namespace Sdc.UdpLife

inductive Op
  | start | stop | publish (epr : Nat) | clear (epr : Nat)
deriving DecidableEq, Repr

structure Node where
  started : Bool := false
  thread : Option Bool := none      -- `some true`: a running thread, `some false`: a stopped thread object that is still referred to
  services : List Nat := []
deriving Repr

/-- a message handed to the node's thread: `true` = accepted (will be transmitted 1 + repeat times), `false` = dropped -/
def hand (n : Node) : Bool := n.thread == some true

/-- one call; the outputs are the hand-overs it causes (Hello / Bye), `none` = the call raises (ApiUsageError / KeyError) -/
def step (n : Node) : Op → Node × Option (List Bool)
  | .start =>
    if n.started then (n, some [])
    else ({ n with started := true, thread := if n.thread.isNone then some true else n.thread }, some [])
  | .stop =>
    if !n.started then (n, some [])
    else ({ started := false, thread := none, services := [] }, some (n.services.map (fun _ => hand n)))
  | .publish e =>
    if !n.started then (n, none)
    else ({ n with services := if e ∈ n.services then n.services else n.services ++ [e] }, some [hand n])
  | .clear e =>
    if e ∈ n.services then ({ n with services := n.services.filter (· != e) }, some [hand n]) else (n, none)

def run (n : Node) : List Op → List (Option (List Bool))
  | [] => []
  | o :: os => (step n o).2 :: run (step n o).1 os

end Sdc.UdpLife
