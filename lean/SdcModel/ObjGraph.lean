/-!
# M2 `ObjGraph` — values of containers / data types as finite trees whose mutable nodes carry identities

Transcription of the *copy discipline* of `xml_structure.py` (`init_instance_data`, `get_py_value_from_node` for an
absent element, the `__get__` side effects), `XMLTypeBase.__init__ / from_node`, `ContainerBase.__init__ / from_node /
mk_copy / _update_from_other`, `copy.copy`, `copy.deepcopy`.

A Python value is `imm v` (no identity that matters: `None` = `imm 0`, `str`, numbers, enum members, `QName` …; the
harness interns them as numbers) or `obj id kids` (a mutable object: a data-type / container instance whose `kids` are
its property values in `sorted_container_properties` order, a `list` whose `kids` are its items, an lxml element with
no `kids`). Sharing between two values = the same `id` occurs in both trees. A write through one reference is applied
to *every* occurrence of the target `id` in the universe (class-level defaults and all instances), which is what an
in-place update of a shared Python object does.

What each property descriptor does on `cls()`, on parsing XML in which its element is absent, and on `__get__` is not
written down here: it is a *table* (`Generated/CopyTable.lean`) regenerated from the running code by observation.
-/
namespace Sdc.ObjGraph

inductive Tree where
  | imm (v : Nat)
  | obj (id : Nat) (kids : List Tree)
deriving Repr, Inhabited

mutual
def Tree.beq : Tree → Tree → Bool
  | .imm a, .imm b => a == b
  | .obj i ks, .obj j ls => i == j && beqL ks ls
  | _, _ => false
def beqL : List Tree → List Tree → Bool
  | [], [] => true
  | a :: as, b :: bs => a.beq b && beqL as bs
  | _, _ => false
end

mutual
theorem Tree.beq_iff (a b : Tree) : a.beq b = true ↔ a = b := by
  cases a with
  | imm x => cases b <;> simp [Tree.beq]
  | obj i ks =>
    cases b with
    | imm y => simp [Tree.beq]
    | obj j ls => simp [Tree.beq, beqL_iff ks ls]
theorem beqL_iff (as bs : List Tree) : beqL as bs = true ↔ as = bs := by
  cases as with
  | nil => cases bs <;> simp [beqL]
  | cons a as =>
    cases bs with
    | nil => simp [beqL]
    | cons b bs => simp [beqL, Tree.beq_iff a b, beqL_iff as bs]
end

instance : DecidableEq Tree := fun a b => decidable_of_iff _ (Tree.beq_iff a b)

mutual
/-- identities of all mutable objects of a value -/
def Tree.ids : Tree → List Nat
  | .imm _ => []
  | .obj id ks => id :: idsL ks
def idsL : List Tree → List Nat
  | [] => []
  | t :: ts => t.ids ++ idsL ts
end

mutual
/-- the value without identities (what `==` / the canonical dump sees) -/
def Tree.strip : Tree → Tree
  | .imm v => .imm v
  | .obj _ ks => .obj 0 (stripL ks)
def stripL : List Tree → List Tree
  | [] => []
  | t :: ts => t.strip :: stripL ts
end

mutual
/-- `copy.deepcopy`: the same shape, every object new (ids `n, n+1, …`); returns the next unused id -/
def Tree.fresh (n : Nat) : Tree → Tree × Nat
  | .imm v => (.imm v, n)
  | .obj _ ks => let r := freshL (n + 1) ks; (.obj n r.1, r.2)
def freshL (n : Nat) : List Tree → List Tree × Nat
  | [] => ([], n)
  | t :: ts => let a := t.fresh n; let b := freshL a.2 ts; (a.1 :: b.1, b.2)
end

mutual
/-- in-place update of the object `tgt`: every occurrence gets its `kids` replaced by `f kids` -/
def Tree.mapNode (tgt : Nat) (f : List Tree → List Tree) : Tree → Tree
  | .imm v => .imm v
  | .obj id ks => if id = tgt then .obj id (f ks) else .obj id (mapNodeL tgt f ks)
def mapNodeL (tgt : Nat) (f : List Tree → List Tree) : List Tree → List Tree
  | [] => []
  | t :: ts => t.mapNode tgt f :: mapNodeL tgt f ts
end

/-- follow a path of child indices -/
def Tree.at : Tree → List Nat → Option Tree
  | t, [] => some t
  | .obj _ ks, k :: p => match ks[k]? with
    | some c => c.at p
    | none => none
  | .imm _, _ :: _ => none

/-! ## the generated table -/

/-- what a descriptor puts into the instance (on `cls()` resp. when its XML element / attribute is absent) -/
inductive Mode where
  | imm (v : Nat)          -- an immutable value (`None` = 0)
  | fresh (tmpl : Tree)    -- a newly created object of this shape (`[]`, `ExtensionLocalValue()` …)
  | copyDefault            -- `copy.deepcopy(self._default_py_value)`
  | theDefault             -- the class-level `_default_py_value` object itself
deriving Repr, Inhabited

/-- what the descriptor's `__get__` does when the stored value is `None` -/
inductive GetMode where
  | plain                  -- returns `None`
  | implied (v : Nat)      -- returns the (immutable) implied value, stores nothing
  | lazy                   -- creates an empty list, stores it in the instance and returns it
  | sharedImplied          -- returns a class-level mutable object
deriving Repr, Inhabited

structure PropE where
  desc : Nat               -- index of the descriptor object (its default lives in `defaults[desc]`)
  ctor : Mode
  absent : Mode
  get : GetMode
deriving Repr, Inhabited

structure ClsE where
  props : List PropE
  copyDeep : Bool          -- `mk_copy()` (containers) / `copy.copy` (data types) shares nothing with the source
  deepOk : Bool            -- `copy.deepcopy` shares nothing with the source
  updDeep : Bool           -- `update_from_other_container` copies property values deeply
  isContainer : Bool       -- a `ContainerBase` class: `mk_copy` and `update_from_other_container` are library operations
  copyLevel1 : Bool        -- the first-level members of `mk_copy()` / `copy.copy` are distinct objects (not those of the source)
  updLevel1 : Bool         -- after `update_from_other_container` the first-level members of `self` are distinct objects
deriving Repr, Inhabited

abbrev Table := List ClsE

def Mode.ok : Mode → Bool
  | .theDefault => false
  | _ => true

def GetMode.ok : GetMode → Bool
  | .sharedImplied => false
  | _ => true

def PropE.ok (p : PropE) : Bool := p.ctor.ok && p.absent.ok && p.get.ok

def ClsE.ok (c : ClsE) : Bool := c.props.all PropE.ok && c.deepOk && (!c.isContainer || c.updLevel1)

/-- the decidable side condition on the generated table: no descriptor ever hands out a class-level object, and
    `copy.deepcopy` (used by `init_instance_data`) shares nothing with its source. `mk_copy` / `copy.copy` and
    `update_from_other_container` may be shallow (they are on this tree: a copy is linked to its source, the table
    records it in `copyDeep` / `updDeep`); what the provider hands out is copied deeply in `mdib/transactions.py`.
    `update_from_other_container` of a container must at least make first-level copies (`updLevel1`: that is what the
    model's `update` does, `copy.copy` per member; a table without it is outside the model). `mk_copy` shares even the
    first-level members on this tree (`copyLevel1 = false`, the model's shallow `copy`): known finding, see C12.json. -/
def tableOK (T : Table) : Bool := T.all ClsE.ok

/-! ## state and operations -/

structure Inst where
  cls : Nat
  grp : Nat                -- instances with different `grp` were obtained independently of each other: a new group
                           -- for `cls()`, `from_node`, `deepcopy`, a deep `mk_copy`; the source's group for a shallow copy
  tree : Tree
deriving Repr, Inhabited, DecidableEq

structure St where
  defaults : List Tree     -- class-level `_default_py_value` per descriptor (`imm 0` = no default)
  insts : List Inst
  next : Nat               -- fresh-id supply
deriving Repr, Inhabited

def maxId : List Nat → Nat
  | [] => 0
  | x :: xs => max x (maxId xs)

def init (D : List Tree) : St := ⟨D, [], maxId (idsL D) + 1⟩

def applyMode (D : List Tree) (n d : Nat) : Mode → Tree × Nat
  | .imm v => (.imm v, n)
  | .fresh t => t.fresh n
  | .copyDefault => (D.getD d (.imm 0)).fresh n
  | .theDefault => (D.getD d (.imm 0), n)

/-- `for prop in sorted_container_properties(): prop.init_instance_data(self)` (plus the constructor body) -/
def buildProps (D : List Tree) : Nat → List PropE → List Tree × Nat
  | n, [] => ([], n)
  | n, p :: ps =>
    let a := applyMode D n p.desc p.ctor
    let b := buildProps D a.2 ps
    (a.1 :: b.1, b.2)

def construct (T : Table) (D : List Tree) (n c : Nat) : Option (Tree × Nat) :=
  match T[c]? with
  | none => none
  | some ce => let r := buildProps D (n + 1) ce.props; some (.obj n r.1, r.2)

/-- the XML input of `from_node` as far as object identity is concerned -/
inductive Shape where
  | absent                                 -- the element / attribute of this property is not in the XML
  | imm (v : Nat)                          -- present, parsed into an immutable value
  | obj (cls : Nat) (kids : List Shape)    -- present, parsed by `value_class.from_node` (one entry per property)
  | list (kids : List Shape)               -- present, a list of parsed items (also: lxml elements, `list []`)
deriving Repr, Inhabited

def clsFlag (T : Table) (c : Nat) (f : ClsE → Bool) : Bool :=
  match T[c]? with
  | some ce => f ce
  | none => false

def propsOf (T : Table) (c : Nat) : List PropE :=
  match T[c]? with
  | some ce => ce.props
  | none => []

mutual
def Shape.build (T : Table) (D : List Tree) (n : Nat) (m : Mode) (d : Nat) : Shape → Tree × Nat
  | .absent => applyMode D n d m
  | .imm v => (.imm v, n)
  | .obj c kids =>
    let r := buildKids T D (n + 1) (propsOf T c) kids
    (.obj n r.1, r.2)
  | .list kids => let r := buildItems T D (n + 1) kids; (.obj n r.1, r.2)
def buildKids (T : Table) (D : List Tree) (n : Nat) : List PropE → List Shape → List Tree × Nat
  | _, [] => ([], n)
  | [], _ :: _ => ([], n)
  | p :: ps, k :: ks =>
    let a := k.build T D n p.absent p.desc
    let b := buildKids T D a.2 ps ks
    (a.1 :: b.1, b.2)
def buildItems (T : Table) (D : List Tree) (n : Nat) : List Shape → List Tree × Nat
  | [] => ([], n)
  | k :: ks =>
    let a := k.build T D n (.imm 0) 0
    let b := buildItems T D a.2 ks
    (a.1 :: b.1, b.2)
end

/-- the new value of a write -/
inductive NewVal where
  | imm (v : Nat)
  | construct (cls : Nat)      -- `value_class()`
  | tmpl (t : Tree)            -- a new list / element of this shape
deriving Repr, Inhabited

inductive Op where
  | construct (c : Nat)                                       -- `cls()`
  | parse (c : Nat) (s : Shape)                               -- `cls.from_node(xml)`; `s` must be `.obj c kids`
  | copy (i : Nat)                                            -- `mk_copy()` / `copy.copy`
  | deepcopy (i : Nat)                                        -- `copy.deepcopy`
  | setKid (i : Nat) (path : List Nat) (k : Nat) (v : NewVal) -- `setattr(<object at path>, <prop k>, v)` / `lst[k] = v`
  | append (i : Nat) (path : List Nat) (v : NewVal)           -- `<list at path>.append(v)`
  | update (i j : Nat) (skip : List Nat)                      -- `i.update_from_other_container(j, skipped)`
deriving Repr, Inhabited

/-- the instances an operation writes through (the others are only read, or not involved at all) -/
def Op.touched : Op → List Nat
  | .construct _ | .parse _ _ | .copy _ | .deepcopy _ => []
  | .setKid i _ _ _ | .append i _ _ => [i]
  | .update i j _ => [i, j]

/-- apply an in-place update to every reference in the universe -/
def mutate (s : St) (tgt : Nat) (f : List Tree → List Tree) : St :=
  { s with defaults := mapNodeL tgt f s.defaults
           insts := s.insts.map fun a => { a with tree := a.tree.mapNode tgt f } }

def evalNew (T : Table) (s : St) : NewVal → Option (Tree × Nat)
  | .imm v => some (.imm v, s.next)
  | .construct c => construct T s.defaults s.next c
  | .tmpl t => some (t.fresh s.next)

def relabel (g g' : Nat) (l : List Inst) : List Inst :=
  l.map fun a => if a.grp = g then { a with grp := g' } else a

def rootId : Tree → Option Nat
  | .obj r _ => some r
  | .imm _ => none

def kidsOf : Tree → List Tree
  | .obj _ ks => ks
  | .imm _ => []

/-- `copy.copy(value)` (or `deepcopy`, if the table says the update copies deeply) -/
def copyVal (deep : Bool) (n : Nat) : Tree → Tree × Nat
  | .imm v => (.imm v, n)
  | .obj r ks => if deep then (Tree.obj r ks).fresh n else (.obj n ks, n + 1)

def isNone : Tree → Bool
  | .imm 0 => true
  | _ => false

/-- `getattr(other, name)` through the descriptor's `__get__`; `cur` = stored value, `rb` = identity of `other`.
    Returns the value and the state after the side effect of `__get__`. -/
def getProp (s : St) (rb k : Nat) (cur : Tree) (g : GetMode) : Tree × St :=
  if isNone cur then
    match g with
    | .lazy => (.obj s.next [], { mutate s rb (fun ks => ks.set k (.obj s.next [])) with next := s.next + 1 })
    | .implied w => (.imm w, s)
    | _ => (cur, s)
  else (cur, s)

/-- one property of `_update_from_other`: `setattr(self, name, copy.copy(getattr(other, name)))`.
    `ra`, `rb` = identities of `self` and `other` (= instance `j`). -/
def updProp (deep : Bool) (s : St) (ra rb j k : Nat) (g : GetMode) : St :=
  let cur := match s.insts[j]? with
    | some b => (kidsOf b.tree).getD k (.imm 0)
    | none => .imm 0
  let q := getProp s rb k cur g
  let r := copyVal deep q.2.next q.1
  { mutate q.2 ra (fun ks => ks.set k r.1) with next := r.2 }

def updProps (deep : Bool) (ra rb j : Nat) (skip : List Nat) : St → Nat → List PropE → St
  | s, _, [] => s
  | s, k, p :: ps =>
    updProps deep ra rb j skip (if k ∈ skip then s else updProp deep s ra rb j k p.get) (k + 1) ps

def step (T : Table) (s : St) : Op → Option St
  | .construct c => match construct T s.defaults s.next c with
    | some (t, n) => some { s with insts := s.insts ++ [⟨c, s.insts.length, t⟩], next := n }
    | none => none
  | .parse c sh => match sh, T[c]? with
    | .obj c' kids, some _ =>
      if c' = c then
        let r := (Shape.obj c kids).build T s.defaults s.next (.imm 0) 0
        some { s with insts := s.insts ++ [⟨c, s.insts.length, r.1⟩], next := r.2 }
      else none
    | _, _ => none
  | .copy i => match s.insts[i]? with
    | some ⟨c, g, .obj r ks⟩ =>
      if clsFlag T c (·.copyDeep) then
        let q := (Tree.obj r ks).fresh s.next
        some { s with insts := s.insts ++ [⟨c, s.insts.length, q.1⟩], next := q.2 }
      else some { s with insts := s.insts ++ [⟨c, g, .obj s.next ks⟩], next := s.next + 1 }
    | _ => none
  | .deepcopy i => match s.insts[i]? with
    | some a =>
      if clsFlag T a.cls (·.deepOk) then
        let q := a.tree.fresh s.next
        some { s with insts := s.insts ++ [⟨a.cls, s.insts.length, q.1⟩], next := q.2 }
      else some { s with insts := s.insts ++ [a] }
    | none => none
  | .setKid i path k v => match s.insts[i]? with
    | some a => match a.tree.at path with
      | some (.obj tgt ks) =>
        if k < ks.length then
          match evalNew T s v with
          | some (t, n) => some { mutate s tgt (fun ks => ks.set k t) with next := n }
          | none => none
        else none
      | _ => none
    | none => none
  | .append i path v => match s.insts[i]? with
    | some a => match a.tree.at path with
      | some (.obj tgt _) => match evalNew T s v with
        | some (t, n) => some { mutate s tgt (fun ks => ks ++ [t]) with next := n }
        | none => none
      | _ => none
    | none => none
  | .update i j skip => match s.insts[i]?, s.insts[j]? with
    | some a, some b => match a.tree, b.tree, T[a.cls]? with
      | .obj ra _, .obj rb _, some ce =>
        if a.cls = b.cls then
          -- a shallow update links the two instances (they share objects afterwards); a deep one does not
          let s0 := if ce.updDeep then s else { s with insts := relabel a.grp b.grp s.insts }
          some (updProps ce.updDeep ra rb j skip s0 0 ce.props)
        else none
      | _, _, _ => none
    | _, _ => none

/-- run an op list; an op the code rejects leaves the state as it is -/
def run (T : Table) : St → List Op → St
  | s, [] => s
  | s, op :: ops => run T ((step T s op).getD s) ops

/-- canonical value of `cls()` in state `s` -/
def constructVal (T : Table) (s : St) (c : Nat) : Option Tree :=
  (construct T s.defaults s.next c).map (·.1.strip)

def Disjoint (a b : List Nat) : Prop := ∀ x, x ∈ a → x ∉ b

end Sdc.ObjGraph
