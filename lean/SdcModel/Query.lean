/-!
# M `Query` — handle resolution of GetMdState / GetContextStates, the localized-text filter, supported languages

Transcription (set level, tables as lists) of
* `GetService._on_get_md_state`            (src/sdc11073/provider/porttypes/getserviceimpl.py)
* `ContextService._on_get_context_states`  (src/sdc11073/provider/porttypes/contextserviceimpl.py)
* `MdibBase.get_all_descriptors_in_subtree` (src/sdc11073/mdib/mdibbase.py; used for the MDS rule)
* `LocalizationStorage.filter_localized_texts / get_supported_languages`, `_tw2i`, `_text_width_filter`,
  `_n_o_l_filter`                          (src/sdc11073/provider/porttypes/localizationservice.py)

The index look-ups of the MDIB tables (`context_states.handle.get_one`, `states.descriptor_handle.get`,
`descriptions.handle.get_one`, `descriptions.parent_handle.get`) are modelled as scans of the table lists
(property C11 is "every lookup agrees with a scan"). Python `dict`s are insertion ordered association lists.
-/
namespace Sdc.Query

abbrev Handle := String

/-! ## generic helpers -/

/-- keep the first occurrence of every element (`list({id(x): x for x in l}.values())`) -/
def dedup {α : Type} [DecidableEq α] : List α → List α
  | [] => []
  | a :: l => a :: (dedup l).filter (fun x => x ≠ a)

/-- stable insertion: `x` is put in front of the first element whose key is not smaller -/
def insertBy {α : Type} (le : α → α → Bool) (x : α) : List α → List α
  | [] => [x]
  | y :: ys => if le x y then x :: y :: ys else y :: insertBy le x ys

/-- stable sort (`list.sort(key=…)` is stable): `le a b` = "key a ≤ key b" -/
def sortBy {α : Type} (le : α → α → Bool) : List α → List α
  | [] => []
  | x :: xs => insertBy le x (sortBy le xs)

/-- `d[k].append(v)` / `d[k] = [v]` on an insertion ordered dict of lists -/
def addToGroups {κ α : Type} [DecidableEq κ] (k : κ) (v : α) : List (κ × List α) → List (κ × List α)
  | [] => [(k, [v])]
  | (k', g) :: rest => if k' = k then (k', g ++ [v]) :: rest else (k', g) :: addToGroups k v rest

/-- `tmp_dict = defaultdict(list); for t in l: tmp_dict[key(t)].append(t)` -/
def groupBy {κ α : Type} [DecidableEq κ] (key : α → κ) (l : List α) : List (κ × List α) :=
  l.foldl (fun acc t => addToGroups (key t) t acc) []

/-! ## MDIB (set level) -/

structure Descr where
  handle : Handle
  parent : Option Handle
  isMds : Bool
deriving DecidableEq, Repr

/-- a state container of either table; `ctx = true`: multi state with its own `handle` -/
structure St where
  ctx : Bool
  handle : Handle
  dh : Handle
deriving DecidableEq, Repr

structure Mdib where
  descrs : List Descr
  states : List St
  ctxs : List St
deriving Repr

/-- `context_states.handle.get_one(h)` (unique index) -/
def ctxByHandle (m : Mdib) (h : Handle) : Option St := m.ctxs.find? (fun c => c.handle = h)
/-- `states.descriptor_handle.get(h, [])` -/
def statesOf (m : Mdib) (h : Handle) : List St := m.states.filter (fun s => s.dh = h)
/-- `context_states.descriptor_handle.get(h, [])` -/
def ctxsOf (m : Mdib) (h : Handle) : List St := m.ctxs.filter (fun s => s.dh = h)
/-- `descriptions.handle.get_one(h, allow_none=True)` -/
def descrByHandle (m : Mdib) (h : Handle) : Option Descr := m.descrs.find? (fun d => d.handle = h)
/-- handles of `descriptions.parent_handle.get(p, [])` -/
def children (m : Mdib) (p : Handle) : List Handle :=
  (m.descrs.filter (fun d => d.parent = some p)).map (·.handle)

/-- handles of `get_all_descriptors_in_subtree(root)` down to depth `fuel` (the code recurses without bound;
    `fuel = number of descriptors` reaches every descriptor below `root`, see `Proofs/Query`) -/
def subtree (m : Mdib) : Nat → Handle → List Handle
  | 0, r => [r]
  | n + 1, r => r :: (children m r).flatMap (subtree m n)

/-! ### GetMdState -/

/-- all states (`requested_handles` empty); `objects` of the two tables are sets of different objects -/
def allStates (m : Mdib) (ctxIncluded : Bool) : List St :=
  m.states ++ (if ctxIncluded then m.ctxs else [])

/-- one loop iteration when context states are served by the Get service -/
def resolveMd (m : Mdib) (h : Handle) : List St :=
  match ctxByHandle m h with
  | some c => [c]                              -- handle of a multi state
  | none => statesOf m h ++ ctxsOf m h         -- KeyError: descriptor handle

/-- the list collected for a non-empty handle list, before duplicates are dropped -/
def collectMdState (m : Mdib) (ctxIncluded : Bool) (hs : List Handle) : List St :=
  if ctxIncluded then hs.flatMap (resolveMd m) else hs.flatMap (statesOf m)

/-- `GetMdStateResponse.MdState.State`; with handles every selected state object once
    (`list({id(state): state for state in state_containers}.values())`) -/
def getMdState (m : Mdib) (ctxIncluded : Bool) (hs : List Handle) : List St :=
  if hs.isEmpty then allStates m ctxIncluded else dedup (collectMdState m ctxIncluded hs)

/-! ### GetContextStates -/

/-- `tmp` of one loop iteration of `_on_get_context_states` -/
def resolveCtx (m : Mdib) (h : Handle) : List St :=
  match ctxByHandle m h with
  | some c => [c]
  | none =>
    let byDescr := ctxsOf m h
    if !byDescr.isEmpty then byDescr
    else match descrByHandle m h with
      | some d =>
        if d.isMds then
          let inMds := subtree m m.descrs.length d.handle
          m.ctxs.filter (fun c => inMds.contains c.dh)
        else []
      | none => []

/-- `context_state_containers_lookup[state.Handle] = state` on an `OrderedDict` -/
def putByHandle (acc : List St) (s : St) : List St :=
  if acc.any (fun x => x.handle = s.handle) then acc.map (fun x => if x.handle = s.handle then s else x)
  else acc ++ [s]

def getContextStates (m : Mdib) (hs : List Handle) : List St :=
  if hs.isEmpty then m.ctxs else (hs.flatMap (resolveCtx m)).foldl putByHandle []

/-! ## localized texts -/

structure Text where
  id : Nat                  -- identity of the stored object
  ref : Option String
  lang : Option String
  version : Option Nat
  width : Option Nat        -- index of the `LocalizedTextWidth` value, `none` = attribute absent
  nol : Nat                 -- `_calc_number_of_lines(text.text)`
deriving DecidableEq, Repr

/-- `_tw2i`: xs,s,m,l,xl,xxl ↦ 0..5, `None` ↦ 999 -/
def widthNames : List String := ["xs", "s", "m", "l", "xl", "xxl"]
def tw2i (name : Option String) : Option Nat :=
  match name with
  | none => some 999
  | some n => widthNames.idxOf? n
def tw (t : Text) : Nat := match t.width with | some w => w | none => 999

/-- `obj.TextWidth * obj.n_o_l`: the enum is a `str`, so this is string repetition (sic) -/
def areaKey (t : Text) : String :=
  String.join (List.replicate t.nol (widthNames.getD (tw t) "?"))

/-- `_tw2i(obj.TextWidth) or -1` -/
def widthKey (t : Text) : Int := if tw t = 0 then -1 else (tw t : Int)
/-- `obj.n_o_l or -1` -/
def nolKey (t : Text) : Int := if t.nol = 0 then -1 else (t.nol : Int)

def widthFilter (l : List Text) (w : Nat) : List Text :=
  sortBy (fun a b => decide (widthKey a ≤ widthKey b)) (l.filter (fun t => tw t ≤ w))
def nolFilter (l : List Text) (n : Nat) : List Text :=
  sortBy (fun a b => decide (nolKey a ≤ nolKey b)) (l.filter (fun t => t.nol ≤ n))

def maxNat : List Nat → Option Nat
  | [] => none
  | a :: l => match maxNat l with
    | none => some a
    | some b => some (max a b)

/-- highest `Version` in the whole storage (`None` when no text has a version) -/
def latest (s : List Text) : Option Nat := maxNat (s.filterMap (·.version))

def refLang (t : Text) : Option String × Option String := (t.ref, t.lang)

/-- `list(self._localized_texts.keys())`: refs in order of first insertion -/
def keys (s : List Text) : List (Option String) := dedup (s.map (·.ref))

def lastToList {α : Type} (l : List α) : List α := match l.getLast? with | some x => [x] | none => []

/-- flat list of all texts with the requested refs (all refs of the store when none is requested) -/
def byRefs (s : List Text) (refs : List String) : List Text :=
  let handles : List (Option String) := if refs.isEmpty then keys s else refs.map some
  handles.flatMap (fun h => s.filter (fun t => t.ref = h))

/-- `[t for t in texts if t.Lang in requested_langs]` (a text without `Lang` is in no list of languages) -/
def byLangs (langs : List String) (texts : List Text) : List Text :=
  if langs.isEmpty then texts
  else texts.filter (fun t => match t.lang with | some l => langs.contains l | none => false)

/-- per (ref, lang) group the texts whose `Version == effective_requested_version` -/
def byVersion (eff : Option Nat) (texts : List Text) : List Text :=
  (groupBy refLang texts).flatMap (fun g => g.2.filter (fun t => t.version = eff))

/-- best match per (ref, lang) group and requested width / number of lines -/
def bySize (widths nols : List Nat) (texts : List Text) : List Text :=
  if widths.isEmpty && nols.isEmpty then texts else
  let grp := groupBy refLang texts
  if !widths.isEmpty && !nols.isEmpty then
    grp.flatMap fun g => widths.flatMap fun w =>
      nols.flatMap fun n =>
        lastToList (sortBy (fun a b => decide (areaKey a ≤ areaKey b)) (nolFilter (widthFilter g.2 w) n))
  else if !widths.isEmpty then
    grp.flatMap fun g => widths.flatMap fun w => lastToList (widthFilter g.2 w)
  else
    grp.flatMap fun g => nols.flatMap fun n => lastToList (nolFilter g.2 n)

/-- `LocalizationStorage.filter_localized_texts`; `s` = stored texts in insertion order, `widths` = `_tw2i` of the
    requested widths, absent constraints = empty lists / `none` -/
def filterTexts (s : List Text) (refs : List String) (ver : Option Nat) (langs : List String)
    (widths nols : List Nat) : List Text :=
  if ver.isNone && s.isEmpty then [] else      -- "there is nothing"
  let eff := match ver with | some v => some v | none => latest s
  bySize widths nols (byVersion eff (byLangs langs (byRefs s refs)))

/-- `get_supported_languages` (a set; texts without `Lang` contribute nothing) -/
def supportedLanguages (s : List Text) : List String := dedup (s.filterMap (·.lang))

/-! ## specification vocabulary (used by `Properties/C20.lean`; nothing here is executed by the driver) -/

/-- well-formedness of the MDIB tables: `objects` are sets, the two state tables are disjoint, handles are unique
    (unique indices `handle`), no multi-state handle is also a descriptor handle, an MDS descriptor is no context
    descriptor. BICEPS requires handles to be unique over descriptors and multi states. -/
structure WF (m : Mdib) : Prop where
  statesNodup : m.states.Nodup
  statesSingle : ∀ s ∈ m.states, s.ctx = false
  ctxsMulti : ∀ c ∈ m.ctxs, c.ctx = true
  ctxHandles : (m.ctxs.map (·.handle)).Nodup
  descrHandles : (m.descrs.map (·.handle)).Nodup
  handleNoDh : ∀ c ∈ m.ctxs, (∀ s ∈ m.states, s.dh ≠ c.handle) ∧ (∀ c' ∈ m.ctxs, c'.dh ≠ c.handle)
  noCtxOfMds : ∀ d ∈ m.descrs, d.isMds = true → ∀ c ∈ m.ctxs, c.handle ≠ d.handle ∧ c.dh ≠ d.handle

/-- `Under m r h`: the descriptor with handle `h` is `r` or lies below `r` in the containment tree -/
inductive Under (m : Mdib) (r : Handle) : Handle → Prop
  | root : Under m r r
  | child {d : Descr} {p : Handle} : d ∈ m.descrs → d.parent = some p → Under m r p → Under m r d.handle

def IsMds (m : Mdib) (h : Handle) : Prop := ∃ d ∈ m.descrs, d.handle = h ∧ d.isMds = true

/-- the BICEPS selection rule of GetMdState: `s` is a state of the MDIB (context states only when they are served by
    the Get service) and the handle list is empty, or names its descriptor, or (multi state) names the state itself -/
def SelMdState (m : Mdib) (ctxIncluded : Bool) (hs : List Handle) (s : St) : Prop :=
  (s ∈ m.states ∨ (ctxIncluded = true ∧ s ∈ m.ctxs)) ∧
  (hs = [] ∨ ∃ h ∈ hs, s.dh = h ∨ (s.ctx = true ∧ s.handle = h))

/-- the selection rule of GetContextStates, including R5042 (handle of an MDS: all context states of that MDS) -/
def SelCtx (m : Mdib) (hs : List Handle) (c : St) : Prop :=
  c ∈ m.ctxs ∧ (hs = [] ∨ ∃ h ∈ hs, c.handle = h ∨ c.dh = h ∨ (IsMds m h ∧ Under m h c.dh))

/-- `h` is not the handle of anything in the MDIB -/
def Unknown (m : Mdib) (h : Handle) : Prop :=
  (∀ s ∈ m.states, s.dh ≠ h) ∧ (∀ c ∈ m.ctxs, c.dh ≠ h ∧ c.handle ≠ h) ∧ (∀ d ∈ m.descrs, d.handle ≠ h)

/-- every constraint that is given in the request holds for the text `t` -/
def Satisfies (refs : List String) (ver : Option Nat) (langs : List String) (widths nols : List Nat) (t : Text) : Prop :=
  (refs ≠ [] → ∃ r ∈ refs, t.ref = some r) ∧
  (∀ v, ver = some v → t.version = some v) ∧
  (langs ≠ [] → ∃ l ∈ langs, t.lang = some l) ∧
  (widths ≠ [] → ∃ w ∈ widths, tw t ≤ w) ∧
  (nols ≠ [] → ∃ n ∈ nols, t.nol ≤ n)

/-- `v` is the latest version of the store: some text has it and no text has a higher one (`none`: no text is versioned) -/
def IsLatest (s : List Text) (v : Option Nat) : Prop :=
  match v with
  | some n => (∃ t ∈ s, t.version = some n) ∧ ∀ t ∈ s, ∀ k, t.version = some k → k ≤ n
  | none => ∀ t ∈ s, t.version = none

end Sdc.Query
