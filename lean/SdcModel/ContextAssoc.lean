import SdcModel.MdibTypes
/-!
# C10 — context association: `set_location` and the `SetContextState` handler

Transcription (core Lean only) of
* `SdcProvider.set_location` (`provider/providerimpl.py`) → `ProviderMdibMethods.set_location`
  (`mdib/providermdibxtra.py`): `ContextStateTransaction.disassociate_all` + `mk_context_state(set_associated=True)`;
* `GenericContextProvider._set_context_state` (`tutorial/productandroles/contextprovider.py`, the handler of the
  SetContextState operations of the example role providers) with `ProviderMdibMethods.disassociate_all`,
  `ContextStateTransaction.write_entity` and the commit (`process_transaction` / `_handle_state_updates`).

The context-state table is a list of `CState` (the real table is keyed by the state handle; dumps are compared sorted).
Handles are `Nat`s (interned by the harness), `uuid4().hex` is the counter `fresh`, `time.time()` is the virtual clock
`clock` which the harness advances by one before every operation.  The descriptors are static (`Env`).
-/
namespace Sdc.ContextAssoc
open Sdc.Mdib

/-- the static part of the MDIB the two operations look at -/
structure Env where
  ctx : List (Handle × Nat)   -- context descriptors: handle, DescriptorVersion
  other : List Handle          -- all other descriptors
  locs : List Handle           -- the LocationContextDescriptors (a sub-list of the `ctx` handles)
deriving Repr, Inhabited

def Env.ctxDv (env : Env) (d : Handle) : Option Nat := (env.ctx.find? (·.1 == d)).map (·.2)
def Env.isCtx (env : Env) (d : Handle) : Bool := (env.ctxDv d).isSome
def Env.handles (env : Env) : List Handle := env.ctx.map (·.1) ++ env.other

structure St where
  tab : List CState       -- mdib.context_states
  ver : Nat               -- mdib.mdib_version
  clock : Nat             -- virtual time.time()
  fresh : Nat             -- next uuid4
  loc : Option Nat        -- SdcProvider._location (interned)
deriving Repr, Inhabited, DecidableEq

/-- exception classes of the implementation -/
inductive Err | valueError | keyError | attributeError
deriving DecidableEq, Repr, Inhabited

inductive Res | ok | err (e : Err)
deriving DecidableEq, Repr, Inhabited

inductive Op
  /-- `provider.set_location(loc, validators, location_context_descriptor_handle = dh)` -/
  | setLocation (loc : Nat) (dh : Option Handle)
  /-- SetContextState with the proposed states (a proposal is a complete context state, as sent on the wire) -/
  | setContextState (ps : List CState)
  /-- the commit of any other transaction (metric, alert, component, …) between two context operations: only the
  MdibVersion moves.  Both context operations read the version they write into Binding/UnbindingMdibVersion
  (`mgr.new_mdib_version = mdib_version + 1`, taken when the transaction object is created) and commit inside one
  critical section of `_transaction_manager` (`with self._tr_lock, self.mdib_lock`), so another commit can only
  happen before or after `step`, never between its read of `ver` and its commit: that is what `st.ver + 1` in
  `setContextState` / `setLocation` says.  The harness forces this interleaving on the real code (an open metric
  transaction while the operation starts) and compares. -/
  | otherCommit
deriving Repr, Inhabited

/-! ## disassociation of the states of one descriptor

`disOne skipNo d ign nv now` is the body of the loops in `ProviderMdibMethods.disassociate_all` (`skipNo = true`,
works on the entity copy, leaves `No` states and the `ignored_handle` alone) and in
`ContextStateTransaction.disassociate_all` (`skipNo = false`; no state is part of the transaction yet when
`set_location` calls it): a state that is not `Dis` or has no unbinding version becomes `Dis`; the unbinding version
and the end time are written only when there is no unbinding version yet. -/

def disCond (skipNo : Bool) (d : Handle) (ign : Option Handle) (s : CState) : Bool :=
  s.dh == d && !(ign == some s.h) && !(skipNo && s.assoc == .no) && (s.assoc != .dis || s.unbindV == none)

def disOne (skipNo : Bool) (d : Handle) (ign : Option Handle) (nv now : Nat) (s : CState) : CState :=
  if disCond skipNo d ign s then
    match s.unbindV with
    | none => { s with assoc := .dis, unbindV := some nv, unbindT := some now }
    | some _ => { s with assoc := .dis }
  else s

/-- the handles `disassociate_all` returns -/
def disHandles (skipNo : Bool) (d : Handle) (ign : Option Handle) (w : List CState) : List Handle :=
  (w.filter (disCond skipNo d ign)).map (·.h)

/-! ## SetContextState -/

/-- `update_from_other_container(proposal, skipped = Binding*/Unbinding*/StateVersion)`: everything else is copied -/
def copyFrom (p old : CState) : CState :=
  { old with dv := p.dv, body := p.body, assoc := p.assoc }

/-- working state of the handler inside the transaction: the entity copies (as one table – the entities partition
the states by descriptor), `modified_state_handles` (all descriptors together: handles are unique) and the uuid counter -/
structure Work where
  w : List CState
  touched : List Handle
  fresh : Nat
deriving Repr, Inhabited

/-- one iteration of the loop over the proposed states; `nv` = `mgr.new_mdib_version`, `now` = `time.time()` -/
def propStep (env : Env) (nv now : Nat) (k : Work) (p : CState) : Except Err Work :=
  match env.ctxDv p.dh with
  | none => .error .attributeError      -- `entities.by_handle` gives None or a single-state entity: no `.states`
  | some ddv =>
    if p.dh != p.h then
      -- update of an existing state
      match k.w.find? (fun s => s.h == p.h && s.dh == p.dh) with
      | none => .error .valueError       -- 'handle … not found' (also: handle exists under another descriptor)
      | some old =>
        if k.touched.contains p.h then .error .valueError   -- modified more than once
        else if old.assoc == .assoc && p.assoc != .assoc then
          if p.assoc != .dis then .error .valueError         -- an associated state can only be disassociated
          else
            let f := fun s => if s.h == p.h then { copyFrom p s with unbindV := some nv, unbindT := some now } else s
            .ok { k with w := k.w.map f, touched := k.touched ++ [p.h] }
        else if old.assoc != .assoc && p.assoc == .assoc then
          if old.unbindV != none then .error .valueError     -- binding has ended
          else
            let hs := disHandles true p.dh (some p.h) k.w
            let f := fun s => if s.h == p.h then { copyFrom p s with bindV := some nv, bindT := some now }
                              else disOne true p.dh (some p.h) nv now s
            .ok { k with w := k.w.map f, touched := k.touched ++ hs ++ [p.h] }
        else
          let f := fun s => if s.h == p.h then copyFrom p s else s
          .ok { k with w := k.w.map f, touched := k.touched ++ [p.h] }
    else
      -- a new state: handle from uuid4; `write_entity` gives it the DescriptorVersion of the descriptor
      let h := k.fresh
      if p.assoc == .assoc then
        let hs := disHandles true p.dh none k.w
        let s := { p with h := h, dv := ddv, bindV := some nv, bindT := some now, unbindV := none, unbindT := none }
        .ok { w := k.w.map (disOne true p.dh none nv now) ++ [s], touched := k.touched ++ hs ++ [h], fresh := h + 1 }
      else
        .ok { w := k.w ++ [{ p with h := h, dv := ddv }], touched := k.touched ++ [h], fresh := h + 1 }

def propLoop (env : Env) (nv now : Nat) : Work → List CState → Except Err Work
  | k, [] => .ok k
  | k, p :: ps => match propStep env nv now k p with
    | .error e => .error e
    | .ok k' => propLoop env nv now k' ps

/-- `get_context_state` + commit (set_location path): a state taken into the transaction gets `StateVersion = old + 1` -/
def bumpSv (tab : List CState) (touched : List Handle) (s : CState) : CState :=
  if touched.contains s.h then
    match tab.find? (·.h == s.h) with
    | some o => { s with sv := o.sv + 1 }
    | none => s
  else s

/-- `ContextStateTransaction.write_entity` (SetContextState path): a written state that existed additionally gets the
current DescriptorVersion of its descriptor in the MDIB -/
def bumpWr (env : Env) (tab : List CState) (touched : List Handle) (s : CState) : CState :=
  if touched.contains s.h then
    match tab.find? (·.h == s.h) with
    | some o => { s with sv := o.sv + 1, dv := (env.ctxDv s.dh).getD s.dv }
    | none => s
  else s

/-- the check in front of the transaction: at most one associated proposal per descriptor -/
def assocDhs (ps : List CState) : List Handle := (ps.filter (·.assoc == .assoc)).map (·.dh)

def hasDup : List Handle → Bool
  | [] => false
  | x :: xs => xs.contains x || hasDup xs

def setContextState (env : Env) (st : St) (ps : List CState) : St × Res :=
  let st0 := { st with clock := st.clock + 1 }
  if hasDup (assocDhs ps) then (st0, .err .valueError)
  else
    match propLoop env (st.ver + 1) st.clock { w := st.tab, touched := [], fresh := st.fresh } ps with
    | .error e => (st0, .err e)
    | .ok k =>
      if k.touched.isEmpty then (st0, .ok)   -- nothing in the transaction: no new MdibVersion
      else ({ st0 with tab := k.w.map (bumpWr env st.tab k.touched), ver := st.ver + 1, fresh := k.fresh }, .ok)

/-! ## set_location -/

/-- the descriptor `set_location` works on: `descriptions.NODETYPE.get_one(LocationContextDescriptor)` when no handle
is given, else `descriptions.handle.get_one(handle)` -/
def locDescr (env : Env) : Option Handle → Except Err Handle
  | none => match env.locs with
    | [] => .error .keyError
    | [d] => .ok d
    | _ => .error .valueError
  | some d => if env.handles.contains d then .ok d else .error .keyError

def setLocation (env : Env) (st : St) (loc : Nat) (dh : Option Handle) : St × Res :=
  let st0 := { st with clock := st.clock + 1 }
  if st.loc == some loc then (st0, .ok)          -- `if location == self._location: return`
  else
    let st1 := { st0 with loc := some loc }      -- `_location` is stored before the MDIB is touched
    match locDescr env dh with
    | .error e => (st1, .err e)
    | .ok d =>
      match env.ctxDv d with
      | none => (st1, .err .valueError)           -- `mk_context_state`: not a context descriptor
      | some ddv =>
        if !env.locs.contains d then (st1, .err .attributeError)   -- no `update_from_sdc_location`
        else
          let nv := st.ver + 1
          let hs := disHandles false d none st.tab
          let s : CState := { h := st.fresh, dh := d, dv := ddv, sv := 0, body := loc, assoc := .assoc,
                              bindV := some nv, unbindV := none, bindT := some st.clock, unbindT := none }
          let w := st.tab.map (disOne false d none nv st.clock)
          ({ st1 with tab := w.map (bumpSv st.tab hs) ++ [s], ver := nv, fresh := st.fresh + 1 }, .ok)

def step (env : Env) (st : St) : Op → St × Res
  | .setLocation loc dh => setLocation env st loc dh
  | .setContextState ps => setContextState env st ps
  | .otherCommit => ({ st with ver := st.ver + 1 }, .ok)

def run (env : Env) (st : St) (ops : List Op) : St := ops.foldl (fun s o => (step env s o).1) st

/-! ## well-formed states -/

def isAssoc (s : CState) : Bool := s.assoc == .assoc

/-- the invariant the theorems start from and that every operation preserves -/
structure WF (env : Env) (st : St) : Prop where
  nodup : (st.tab.map (·.h)).Nodup
  lt_fresh : ∀ s ∈ st.tab, s.h < st.fresh
  env_lt : ∀ d ∈ env.handles, d < st.fresh
  not_descr : ∀ s ∈ st.tab, s.h ∉ env.handles
  uniq : ∀ a ∈ st.tab, ∀ b ∈ st.tab, a.dh = b.dh → a.assoc = .assoc → b.assoc = .assoc → a.h = b.h
  assoc_open : ∀ s ∈ st.tab, s.assoc = .assoc → s.unbindV = none

/-- marked as disassociated at version `v` and (virtual) time `t` -/
def Marked (v t : Nat) (s : CState) : Prop := s.assoc = .dis ∧ s.unbindV = some v ∧ s.unbindT = some t

end Sdc.ContextAssoc
