/-!
# M6 `Fp64` — the binary64 operations used by the scalar converters, on integers

A finite non-zero binary64 value is `(-1)^neg · m · 2^e` with `2^52 ≤ m < 2^53`; zero is `m = 0, e = 0`.
The exponent is unbounded (`Int`): the model is bit-exact with IEEE-754 binary64 as long as no result is
subnormal / overflows (|result| in [2^-1022, 2^1024)); that range is never left by the operations of C18
(millisecond counts, durations) and the correspondence check compares `float.hex()` bit by bit.

* `rnRat neg a b` — correctly rounded `±a/b` (round to nearest, ties to even). CPython: `int / int`
  (`long_true_divide` is correctly rounded), `float('<digits>.<digits>')` (correctly rounded decimal → binary).
* `rnMul x k`     — correctly rounded `x * k` for an integer `k` that is exactly representable (`x * 1000`).
* `roundHalfEven` — Python `round(x)` for a float (nearest integer, ties to even; exact).
* `floorNat`, `fracMul` — `math.modf` + `frac * k` as used by `datetime.timedelta(seconds=<float>)`.

Core Lean only (linked into the driver). Proofs: `Proofs/Fp64.lean`.
-/
namespace Sdc.Fp64

/-- nearest integer to `N / D` (`D > 0`), ties to even -/
def roundNE (N D : Nat) : Nat :=
  if 2 * (N % D) < D then N / D
  else if D < 2 * (N % D) then N / D + 1
  else if (N / D) % 2 = 0 then N / D else N / D + 1

structure Fp where
  neg : Bool
  m : Nat
  e : Int
deriving DecidableEq, Repr, Inhabited

/-- numerator / denominator of `(a / b) / 2^e` -/
def scaleN (a : Nat) (e : Int) : Nat := if 0 ≤ e then a else a * 2 ^ (-e).toNat
def scaleD (b : Nat) (e : Int) : Nat := if 0 ≤ e then b * 2 ^ e.toNat else b

/-- the exponent `e` with `2^52 ≤ (a/b) / 2^e < 2^53` (for `a, b > 0`) -/
def expOf (a b : Nat) : Int :=
  let e0 : Int := (Nat.log2 a : Int) - (Nat.log2 b : Int) - 53
  if scaleN a e0 < 2 ^ 53 * scaleD b e0 then e0 else e0 + 1

/-- mantissa and exponent of the correctly rounded quotient `a / b` (`a, b > 0`) -/
def rnPos (a b : Nat) : Nat × Int :=
  let e := expOf a b
  let m := roundNE (scaleN a e) (scaleD b e)
  if m = 2 ^ 53 then (2 ^ 52, e + 1) else (m, e)

/-- correctly rounded `±a / b` -/
def rnRat (neg : Bool) (a b : Nat) : Fp :=
  if a = 0 then ⟨neg, 0, 0⟩ else ⟨neg, (rnPos a b).1, (rnPos a b).2⟩

/-- `|x| = valN x / valD x` -/
def valN (x : Fp) : Nat := if 0 ≤ x.e then x.m * 2 ^ x.e.toNat else x.m
def valD (x : Fp) : Nat := if 0 ≤ x.e then 1 else 2 ^ (-x.e).toNat

/-- correctly rounded `x * k` (`k > 0` an exactly representable integer) -/
def rnMul (x : Fp) (k : Nat) : Fp := rnRat x.neg (valN x * k) (valD x)

/-- `|round(x)|` of Python for a float: nearest integer, ties to even -/
def roundHalfEven (x : Fp) : Nat := roundNE (valN x) (valD x)

/-- `round(x)` as a signed integer -/
def roundInt (x : Fp) : Int := if x.neg then - (roundHalfEven x : Int) else roundHalfEven x

/-- integral part of `|x|` (`math.modf`) -/
def floorNat (x : Fp) : Nat := valN x / valD x

/-- `frac(|x|) * k` as a float (`modf` is exact, the product is rounded) -/
def fracMul (x : Fp) (k : Nat) : Fp := rnRat false ((valN x % valD x) * k) (valD x)

/-- float from a non-negative integer (`float(n)`, correctly rounded) -/
def ofNat (n : Nat) : Fp := rnRat false n 1

end Sdc.Fp64
