/-!
# M `Tls` — where the decision "TLS or plaintext" is taken (C19)

Transcription of the decision logic of
* provider: `SdcProvider.__init__` (`_urlschema` from the presence of the SSL context container), `get_xaddrs`,
  `_start_services` (own HTTP server gets `server_context`; `base_urls` built from `_urlschema`), `_mk_soap_client`
  (client context for every outgoing connection), `DPWSHostedService.mk_dpws_hosted_instance` / `_on_get_metadata`,
  `SubscriptionsManagerBase._mk_subscribe_response_message`, `send_notification_end_message`;
* consumer: `SdcConsumer.__init__` (`is_ssl_connection` from `force_ssl_connect` / container), `_connect` (the only place
  with a fall-back), `get_soap_client` / `_mk_soap_client`, `_start_event_sink`, `base_url` (NotifyTo / EndTo);
* `certloader.mk_ssl_contexts` (verify mode).
What OpenSSL does with a context is outside the model.
-/
namespace Sdc.Tls

inductive Scheme | http | https
deriving DecidableEq, Repr

/-- consumer: no SSL container / container, TLS tried first / container + `force_ssl_connect` -/
inductive ConsMode | none | optional | enforced
deriving DecidableEq, Repr

/-- the HTTP server an endpoint uses: its own one, or one handed in by the application (plaintext or TLS) -/
inductive Server | own | sharedPlain | sharedTls
deriving DecidableEq, Repr

inductive Host | ip | alt
deriving DecidableEq, Repr

structure Cfg where
  provTls : Bool          -- provider has an SSLContextContainer
  provServer : Server
  provAlt : Bool          -- provider `alternative_hostname`
  cons : ConsMode
  consServer : Server
  consAlt : Bool          -- consumer `alternative_hostname`
deriving DecidableEq, Repr

/-- every place where one of the two parties writes an address of one of its own endpoints into a message -/
inductive Site
  | xaddr                   -- provider: WS-Discovery XAddrs (`get_xaddrs`: Hello, ProbeMatches)
  | hostedEpr               -- provider: GetMetadata / TransferGet: Hosted/EndpointReference/Address
  | wsdlLocation            -- provider: hosted service metadata, `mex:Location`
  | subscriptionManager     -- provider: SubscribeResponse SubscriptionManager/Address
  | subscriptionEndManager  -- provider: SubscriptionEnd SubscriptionManager/Address
  | notifyTo                -- consumer: Subscribe Delivery/NotifyTo/Address
  | endTo                   -- consumer: Subscribe EndTo/Address
deriving DecidableEq, Repr

def Site.all : List Site :=
  [.xaddr, .hostedEpr, .wsdlLocation, .subscriptionManager, .subscriptionEndManager, .notifyTo, .endTo]

def Site.ofProvider : Site → Bool
  | .notifyTo => false
  | .endTo => false
  | _ => true

def Server.all : List Server := [.own, .sharedPlain, .sharedTls]
def ConsMode.all : List ConsMode := [.none, .optional, .enforced]

/-- the complete configuration space -/
def Cfg.all : List Cfg :=
  [false, true].flatMap fun a => Server.all.flatMap fun b => [false, true].flatMap fun c =>
  ConsMode.all.flatMap fun d => Server.all.flatMap fun e => [false, true].map fun f => ⟨a, b, c, d, e, f⟩

/-! ## provider -/

/-- `_urlschema` -/
def provScheme (cfg : Cfg) : Scheme := if cfg.provTls then .https else .http

/-- every soap client the provider creates (notifications, SubscriptionEnd) gets `client_context` iff a container exists -/
def provClientTls (cfg : Cfg) : Bool := cfg.provTls

/-- transport of a notification / SubscriptionEnd to a subscriber (synchronous and asynchronous subscription manager):
    the provider's TLS setting decides; the scheme of the NotifyTo / EndTo address the subscriber gave is NOT consulted
    (only netloc and path of it are used) -/
def deliveryTls (cfg : Cfg) (_subscriberScheme : Scheme) (_asyncManager : Bool) : Bool := cfg.provTls

/-- the protocol the provider's HTTP server really speaks -/
def provServerTls (cfg : Cfg) : Bool :=
  match cfg.provServer with
  | .own => cfg.provTls
  | .sharedPlain => false
  | .sharedTls => true

/-! ## consumer -/

/-- `is_ssl_connection` after the constructor -/
def initSsl : ConsMode → Option Bool
  | .enforced => some true
  | .none => some false
  | .optional => none

structure CState where
  ssl : Option Bool               -- `is_ssl_connection`
  pool : List (Bool × Nat)        -- keys `(use_ssl, netloc)` of `_soap_clients` (netlocs numbered; 0 = the provider address)
deriving DecidableEq, Repr

def CState.init (m : ConsMode) : CState := ⟨initSsl m, []⟩

/-- what `soap_client.connect()` does for a client with the TLS context -/
inductive Conn | ok | sslError | otherError
deriving DecidableEq, Repr

inductive CEv
  | connect (r : Conn)       -- `_connect()`; `r`: the TLS handshake succeeds / raises `ssl.SSLError` / raises something else
  | getClient (netloc : Nat) -- `get_soap_client(address)`
  | stop                     -- `stop_all()`: all clients closed, pool emptied
deriving DecidableEq, Repr

/-- `get_soap_client`: `use_ssl = is_ssl_connection is not False`; returns the TLS flags of the clients created -/
def getClient (s : CState) (n : Nat) : CState × List Bool :=
  let u := s.ssl != some false
  if (u, n) ∈ s.pool then (s, []) else ({ s with pool := (u, n) :: s.pool }, [u])

def cstep (s : CState) : CEv → CState × List Bool
  | .getClient n => getClient s n
  | .stop => ({ s with pool := [] }, [])
  | .connect res =>
    match s.ssl with
    | some _ => getClient s 0                  -- decided in the constructor: `connect()` succeeds or raises, nothing else
    | none =>
      let r1 := getClient s 0                  -- first try: a client with the TLS context
      match res with
      | .ok => ({ r1.1 with ssl := some true }, r1.2)
      | .otherError => r1                      -- only `ssl.SSLError` is caught: the exception escapes, nothing is decided
      | .sslError =>                           -- forget the client, decide for plaintext, plaintext client
        let r2 := getClient { r1.1 with pool := r1.1.pool.erase (true, 0), ssl := some false } 0
        (r2.1, r1.2 ++ r2.2)

/-- final state and the TLS flags of all soap clients created, in order -/
def crun (s : CState) : List CEv → CState × List Bool
  | [] => (s, [])
  | e :: es =>
    let r := cstep s e
    let r' := crun r.1 es
    (r'.1, r.2 ++ r'.2)

/-- the protocol the consumer's HTTP server (event sink) speaks: own server gets `server_context` iff `is_ssl_connection` -/
def consServerTls (cfg : Cfg) (ssl : Option Bool) : Bool :=
  match cfg.consServer with
  | .own => ssl == some true
  | .sharedPlain => false
  | .sharedTls => true

/-- `_start_event_sink`: a shared server that does not speak TLS is refused when the provider connection uses TLS.
    The decision looks at the connection (`is_ssl_connection`), not at how the application spelled the provider address. -/
def eventSinkAcceptedFor (cfg : Cfg) (ssl : Option Bool) (_addressSpelling : Scheme) : Bool :=
  !(ssl == some true && cfg.consServer == .sharedPlain)

def eventSinkAccepted (cfg : Cfg) (ssl : Option Bool) : Bool := eventSinkAcceptedFor cfg ssl .https

/-! ## the addresses written into messages -/

def urlScheme (cfg : Cfg) (ssl : Option Bool) : Site → Scheme
  | .notifyTo => if consServerTls cfg ssl then .https else .http
  | .endTo => if consServerTls cfg ssl then .https else .http
  | _ => provScheme cfg

def urlHost (cfg : Cfg) : Site → Host
  | .xaddr => if cfg.provAlt then .alt else .ip
  | .notifyTo => if cfg.consAlt then .alt else .ip
  | .endTo => if cfg.consAlt then .alt else .ip
  | _ => .ip

/-! ## `mk_ssl_contexts` -/

inductive Verify | certNone | certOptional | certRequired
deriving DecidableEq, Repr

/-- `ssl.SSLContext(PROTOCOL_TLS_CLIENT)` starts with CERT_REQUIRED, `PROTOCOL_TLS_SERVER` with CERT_NONE;
    a CA file sets CERT_REQUIRED on both -/
def verifyMode (server : Bool) (caFile : Bool) : Verify :=
  if caFile then .certRequired else if server then .certNone else .certRequired

/-- ... whether or not a cyphers string is configured as well -/
def verifyModeWith (server : Bool) (caFile : Bool) (_cyphers : Bool) : Verify := verifyMode server caFile

/-! ## `mk_ssl_contexts_from_folder` -/

inductive FolderResult
  | fileNotFound                               -- `FileNotFoundError`
  | contexts (client server : Verify)          -- an `SSLContextContainer` with these verify modes
deriving DecidableEq, Repr

/-- key file / certificate present in the folder; a CA file named (`ca_public_key`, default `cacert.pem`) and present.
    A named CA file that is missing refuses; it never degrades to contexts without a CA. -/
def fromFolder (keyPresent certPresent caNamed caPresent : Bool) : FolderResult :=
  if !keyPresent then .fileNotFound
  else if !certPresent then .fileNotFound
  else if caNamed && !caPresent then .fileNotFound
  else .contexts (verifyMode false caNamed) (verifyMode true caNamed)

/-- the same with a cyphers file named in the call (it exists in the folder): no influence on the verify modes -/
def fromFolderWith (keyPresent certPresent caNamed caPresent _cyphers : Bool) : FolderResult :=
  fromFolder keyPresent certPresent caNamed caPresent

end Sdc.Tls
