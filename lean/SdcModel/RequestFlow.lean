/-!
# M `RequestFlow` — the try/except skeleton of request handling (C13)

Transcription of the exception structure of
* `MessageConverterMiddleware.do_post` / `do_get` (src/sdc11073/dispatch/messageconverter.py),
* `DispatchingRequestHandler.do_POST` / `do_GET` (src/sdc11073/httpserver/httprequesthandler.py, repaired: exceptions of
  body reading, path lookup and `do_get` are answered with 400 / 404 / 500 instead of escaping).

Every stage (a call that can raise) is a parameter: its outcome is `ok` or an exception. Exceptions are classified exactly
as the `except` clauses classify them. `Except Exc α` as the result type of a handler = "returns α or lets the exception
escape to its caller". Only subclasses of `Exception` are considered (KeyboardInterrupt / SystemExit are not caught by design).
The state (MDIB + subscription table) is threaded through the only stage that gets to see it: the dispatcher.
-/
namespace Sdc.RequestFlow

/-- exception classes as the handlers distinguish them; `cls` / `tag` identify the concrete class / reason for the harness -/
inductive Exc
  | invalidPath (status : Nat) (tag : Nat)   -- InvalidPathError (a HTTPRequestHandlingError): carries status, reason, fault
  | http (status : Nat) (tag : Nat)          -- any other HTTPRequestHandlingError
  | other (cls : Nat)                        -- any other Exception
deriving DecidableEq, Repr

def Exc.isHttp : Exc → Bool
  | .invalidPath .. => true
  | .http .. => true
  | .other _ => false

inductive Reason
  | ok                  -- 'Ok'
  | ofExc (tag : Nat)   -- ex.reason
  | exception           -- 'exception'
deriving DecidableEq, Repr

/-- which serialisation produced the body -/
inductive Body
  | response (id : Nat)   -- dispatcher's answer
  | fault (id : Nat)      -- mk_soap_message(fault) (request could not be read)
  | reply (id : Nat)      -- mk_reply_soap_message(request, fault)
deriving DecidableEq, Repr

structure Response where
  status : Nat
  reason : Reason
  body : Body
deriving DecidableEq, Repr

abbrev Stage (α : Type) := Except Exc α

deriving instance DecidableEq for Except

/-- outcomes of the calls made by `do_post`, in program order -/
structure PostEnv (σ : Type) where
  read1 : Stage Unit            -- msg_reader.read_received_message(request_bytes)   (parse, validate)
  mkFaultMsg : Stage Unit       -- HeaderInformationBlock(..); msg_factory.mk_soap_message(inf, payload=fault)
  serFault : Stage Nat          -- response.serialize()
  dispatch : σ → Stage Unit × σ -- RequestData(..); consume_current_path_element(); dispatcher.on_post(request_data)
  serResp : Stage Nat           -- response.serialize()
  read2 : Stage Unit            -- msg_reader.read_received_message(request_bytes, validate=False)   (in both handlers)
  mkReply : Stage Unit          -- RequestData(..); Fault(..); msg_factory.mk_reply_soap_message(request_data, fault)
  serReply : Stage Nat          -- response.serialize()

/-- status and reason the `except` clauses of `do_post` pick for an exception -/
def statusOf : Exc → Nat × Reason
  | .invalidPath s t => (s, .ofExc t)
  | .http s t => (s, .ofExc t)
  | .other _ => (500, .exception)

/-- `MessageConverterMiddleware.do_post` -/
def doPost {σ : Type} (e : PostEnv σ) (s : σ) : Stage Response × σ :=
  match e.read1 with
  | .error x =>
    -- `fault is not None`: the reply is built outside any try block
    (match e.mkFaultMsg with
     | .error y => .error y
     | .ok _ => match e.serFault with
       | .error y => .error y
       | .ok b => .ok ⟨(statusOf x).1, (statusOf x).2, .fault b⟩, s)
  | .ok _ =>
    match e.dispatch s with
    | (.ok _, s') =>
      (match e.serResp with
       | .ok b => .ok ⟨200, .ok, .response b⟩
       | .error x => replyFor x, s')
    | (.error x, s') => (replyFor x, s')
where
  /-- both `except` handlers: re-read without validation, build the reply; nothing guards these calls -/
  replyFor (x : Exc) : Stage Response :=
    match e.read2 with
    | .error y => .error y
    | .ok _ => match e.mkReply with
      | .error y => .error y
      | .ok _ => match e.serReply with
        | .error y => .error y
        | .ok b => .ok ⟨(statusOf x).1, (statusOf x).2, .reply b⟩

/-- the calls after a failure are assumed not to raise: hypothesis of `doPost_total_partial` -/
def PostEnv.FaultPathOk {σ : Type} (e : PostEnv σ) : Prop :=
  (∃ u, e.mkFaultMsg = .ok u) ∧ (∃ b, e.serFault = .ok b) ∧ (∃ u, e.read2 = .ok u) ∧ (∃ u, e.mkReply = .ok u) ∧
    (∃ b, e.serReply = .ok b)

/-! ## `do_get` of the middleware -/

structure GetEnv where
  parse : Stage Unit        -- urlparse(path)   (outside the try block)
  handle : Stage Nat        -- RequestData; consume; dispatcher.on_get

inductive GetOut
  | ok (id : Nat)           -- 200 'Ok'
  | error                   -- 500 'Exception', str(ex)
deriving DecidableEq, Repr

def doGet (e : GetEnv) : Stage GetOut :=
  match e.parse with
  | .error y => .error y
  | .ok _ => match e.handle with
    | .ok b => .ok (.ok b)
    | .error _ => .ok .error

/-! ## `DispatchingRequestHandler` -/

inductive HttpOut
  | plain (status : Nat) (reason : Reason)   -- text/plain answer written by the handler itself
  | soap (r : Response)                      -- what the component returned
  | get (r : GetOut)
deriving DecidableEq, Repr

structure HandlerEnv (σ : Type) where
  readBody : Stage Unit                 -- self._read_request(): framing + content coding (model: `Http.readRequestBody`)
  hasDispatcher : Bool                  -- self.server.dispatcher is not None
  lookup : Stage Unit                   -- get_first_path_element(); dispatcher.get_instance(..)
  post : σ → Stage Response × σ         -- component.do_post(..) — anything, not only `doPost`
  get : Stage GetOut                    -- component.do_get(..)

/-- `do_POST` -/
def doPOST {σ : Type} (e : HandlerEnv σ) (s : σ) : Stage HttpOut × σ :=
  match e.readBody with
  | .error _ => (.ok (.plain 400 .exception), s)
  | .ok _ =>
    if !e.hasDispatcher then (.ok (.plain 500 .exception), s)
    else match e.lookup with
      | .error (.invalidPath st t) => (.ok (.plain st (.ofExc t)), s)
      | .error _ => (.ok (.plain 400 .exception), s)
      | .ok _ =>
        match e.post s with
        | (.ok r, s') => (.ok (.soap r), s')
        | (.error _, s') => (.ok (.plain 500 .exception), s')

/-- `do_GET` -/
def doGET {σ : Type} (e : HandlerEnv σ) : Stage HttpOut :=
  if !e.hasDispatcher then .ok (.plain 404 .exception)
  else match e.lookup with
    | .error (.invalidPath st t) => .ok (.plain st (.ofExc t))
    | .error _ => .ok (.plain 400 .exception)
    | .ok _ => match e.get with
      | .ok r => .ok (.get r)
      | .error _ => .ok (.plain 500 .exception)

/-! ## one persistent connection: `BaseHTTPRequestHandler.handle` calls `do_POST` for request after request until
`close_connection` is set. `do_POST` sets it when the body could not be read (the position in the stream is unknown then) and when
there is no dispatcher. -/

def serveConn {σ : Type} : List (HandlerEnv σ) → σ → List HttpOut × σ
  | [], s => ([], s)
  | e :: rest, s =>
    match doPOST e s with
    | (.error _, s') => ([], s')                      -- never happens (`doPOST_total`)
    | (.ok o, s') =>
      match e.readBody with
      | .error _ => ([o], s')                         -- close_connection = True: what follows on the connection is not looked at
      | .ok _ =>
        if e.hasDispatcher then ((o :: (serveConn rest s').1), (serveConn rest s').2)
        else ([o], s')

/-! ## delayed operations of the provider: `ScoOperationsRegistry.handle_operation_request`

The request thread puts the operation on the worker's bounded queue with `put(.., timeout=1)`; `queue.Full` is answered with
InvocationState Fail. The worker takes one item at a time and runs its handler. -/

inductive InvState
  | wait | failed
deriving DecidableEq, Repr

/-- one Set request while `queued` operations are waiting in a queue of `cap` slots: the answer and the new queue length -/
def handleOperationRequest (cap queued : Nat) : InvState × Nat :=
  if queued < cap then (.wait, queued + 1) else (.failed, queued)

/-- a burst of `n` requests while the worker is busy with a handler that does not return (nothing leaves the queue) -/
def opBurst (cap : Nat) : Nat → Nat → List InvState
  | _, 0 => []
  | queued, n + 1 => (handleOperationRequest cap queued).1 :: opBurst cap (handleOperationRequest cap queued).2 n

/-! ## parser construction sites (the table itself is generated) -/

structure ParserSite where
  site : String              -- module:function
  cls : String               -- XMLParser | ETCompatXMLParser | default (no parser argument)
  resolveEntities : Bool
  noNetwork : Bool
  loadDtd : Bool
  network : Bool             -- the site was observed parsing bytes that came from a peer
deriving DecidableEq, Repr

/-- the policy for a site that sees peer data: no entity resolution, no network, no DTD loading -/
def ParserSite.safe (p : ParserSite) : Bool := !p.resolveEntities && p.noNetwork && !p.loadDtd

/-! ## deferred dispatch of the consumer: `DispatchKeyRegistryDeferred`

`on_post` puts (handler, request) on a bounded queue and answers immediately; the worker thread `_read_queue` takes the
items one by one and calls the handler inside `try … except Exception` (the catch-all is *inside* the loop). -/

structure Item where
  id : Nat
  outcome : Stage Unit        -- what the handler does with it (returns or raises)
deriving DecidableEq, Repr

structure DState where
  queue : List Item           -- queue.Queue(cap) content, oldest first
  handled : List Nat          -- ids handed to their handler, in order
  alive : Bool                -- the worker thread is still in its loop
deriving DecidableEq, Repr

inductive DOp
  | post (it : Item)          -- on_post: queue.put((func, request, action)); return EmptyResponse()
  | work                      -- one pass of the worker loop
deriving DecidableEq, Repr

/-- one step; the Bool says "this `put` would block" (queue full), in which case nothing changes -/
def dstep (cap : Nat) (s : DState) : DOp → DState × Bool
  | .post it => if s.queue.length < cap then ({ s with queue := s.queue ++ [it] }, false) else (s, true)
  | .work =>
    if s.alive then
      match s.queue with
      | [] => (s, false)                                  -- queue.get() waits
      | it :: r =>
        -- try: func(request)  except Exception: log   — whatever `it.outcome` is, the loop goes on
        ({ queue := r, handled := s.handled ++ [it.id], alive := true }, false)
    else (s, false)

def drun (cap : Nat) (s : DState) : List DOp → DState
  | [] => s
  | op :: ops => drun cap (dstep cap s op).1 ops

end Sdc.RequestFlow
