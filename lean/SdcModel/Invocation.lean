/-!
# M `Invocation` — the BICEPS invocation-state rendez-vous (C09)

Transcription of
* provider: `SdcProvider.generate_transaction_id` (providerimpl.py), `ServiceWithOperations._handle_operation_request`
  (porttypes/porttypebase.py), `ScoOperationsRegistry.handle_operation_request` and `_OperationsWorker.run` (sco.py),
  `SetService.notify_operation` (porttypes/setserviceimpl.py);
* consumer: `OperationsManager.call_operation` / `on_operation_invoked_report` (consumer/operations.py);
* the id lock as an interleaving semantics (section `Lts`).

Abstractions: a handler is its outcome (`ok state | raises`); "the MDIB was touched" is the number of handler
executions (the handler is the only code on this path that opens a transaction); a report part / a response is
`(transaction id, state, error information present?)`; futures and report parts are identified by numbers.
-/
namespace Sdc.Invocation

/-! ## invocation states (`msg_types.InvocationState`) -/

inductive St | wait | start | cnclld | cnclldMan | fin | finMod | fail
deriving DecidableEq, Repr, Inhabited

/-- `Wait` and `Start` are the only non-final states (consumer: `nonFinalOperationStates`) -/
def St.isFinal : St → Bool
  | .wait => false
  | .start => false
  | _ => true

/-- response states for which the consumer does not wait for a report -/
def St.immediate : St → Bool
  | .fail => true
  | .cnclld => true
  | .cnclldMan => true
  | _ => false

def St.name : St → String
  | .wait => "Wait" | .start => "Start" | .cnclld => "Cnclld" | .cnclldMan => "CnclldMan"
  | .fin => "Fin" | .finMod => "FinMod" | .fail => "Fail"

def St.ofName? : String → Option St
  | "Wait" => some .wait | "Start" => some .start | "Cnclld" => some .cnclld | "CnclldMan" => some .cnclldMan
  | "Fin" => some .fin | "FinMod" => some .finMod | "Fail" => some .fail
  | _ => none

def St.all : List St := [.wait, .start, .cnclld, .cnclldMan, .fin, .finMod, .fail]

/-! ## provider -/

/-- what the operation handler does when it is executed -/
inductive Outcome | ok (s : St) | raises
deriving DecidableEq, Repr

/-- the handler contract (`ExecuteResult`: "only return a final state, not WAIT or STARTED") -/
def Outcome.legal : Outcome → Bool
  | .ok s => s.isFinal
  | .raises => true

/-- a Set / Activate / SetContextState request as far as the invocation protocol is concerned -/
structure Req where
  sco : Option Nat     -- `none`: no operation registered for the handle; `some k`: registered in SCO number k
  direct : Bool        -- `not operation.delayed_processing`
  outcome : Outcome
deriving DecidableEq, Repr

structure Info where
  tx : Nat
  st : St
  err : Bool           -- InvocationError + InvocationErrorMessage present
deriving DecidableEq, Repr

inductive Msg
  | resp (i : Info)    -- the `Set…Response` body
  | report (i : Info)  -- one `OperationInvokedReport` (always a single part on the provider side)
deriving DecidableEq, Repr

def Msg.info : Msg → Info
  | .resp i => i
  | .report i => i

/-- the report sent after the handler ran -/
def finalInfo (tx : Nat) : Outcome → Info
  | .ok s => ⟨tx, s, false⟩
  | .raises => ⟨tx, .fail, true⟩

structure Prov where
  counter : Nat                          -- `_transaction_id`
  inflight : List (Nat × Req)            -- requests that have their id, not yet dispatched (HTTP handler threads)
  queues : Nat → List (Nat × Outcome)    -- per SCO: `_OperationsWorker._operations_queue`
  mdib : Nat                             -- number of handler executions
  cap : Nat                              -- `queue.Queue(cap)`

def Prov.init (cap : Nat) : Prov := ⟨0, [], fun _ => [], 0, cap⟩

def setQ (f : Nat → List (Nat × Outcome)) (s : Nat) (q : List (Nat × Outcome)) : Nat → List (Nat × Outcome) :=
  fun j => if j = s then q else f j

inductive Ev
  | recv (r : Req)     -- a request arrives: `generate_transaction_id()` (the id is taken before the lookup result is used)
  | handle (k : Nat)   -- the k-th in-flight request is dispatched (`handle_operation_request`) and answered
  | tick (sco : Nat)   -- the worker of that SCO takes the next queued request and processes it
deriving DecidableEq, Repr

/-- dispatch of one request that owns transaction id `tx` -/
def dispatch (p : Prov) (tx : Nat) (r : Req) : Prov × List Msg :=
  match r.sco with
  | none => (p, [.resp ⟨tx, .fail, true⟩])
  | some s =>
    if r.direct then
      ({ p with mdib := p.mdib + 1 },
       [.report (finalInfo tx r.outcome), .resp ⟨tx, (finalInfo tx r.outcome).st, false⟩])
    else if (p.queues s).length < p.cap then
      ({ p with queues := setQ p.queues s (p.queues s ++ [(tx, r.outcome)]) }, [.resp ⟨tx, .wait, false⟩])
    else
      (p, [.report ⟨tx, .fail, true⟩, .resp ⟨tx, .fail, false⟩])

def step (p : Prov) : Ev → Prov × List Msg
  | .recv r => ({ p with counter := p.counter + 1, inflight := p.inflight ++ [(p.counter + 1, r)] }, [])
  | .handle k =>
    match p.inflight[k]? with
    | none => (p, [])
    | some (tx, r) => dispatch { p with inflight := p.inflight.eraseIdx k } tx r
  | .tick s =>
    match p.queues s with
    | [] => (p, [])
    | (tx, o) :: rest =>
      ({ p with queues := setQ p.queues s rest, mdib := p.mdib + 1 },
       [.report ⟨tx, .wait, false⟩, .report ⟨tx, .start, false⟩, .report (finalInfo tx o)])

/-- state and complete message log (in emission order) after a list of events -/
def run (p : Prov) : List Ev → Prov × List Msg
  | [] => (p, [])
  | e :: es =>
    let r := step p e
    let r' := run r.1 es
    (r'.1, r.2 ++ r'.2)

/-- all messages about one transaction, in emission order -/
def msgsOf (tx : Nat) (log : List Msg) : List Msg := log.filter (fun m => m.info.tx = tx)

def statesOf (tx : Nat) (log : List Msg) : List St := (msgsOf tx log).map (·.info.st)

def Msg.report? : Msg → Option Info
  | .report i => some i
  | .resp _ => none

def Msg.resp? : Msg → Option Info
  | .resp i => some i
  | .report _ => none

/-- the report parts about one transaction / the response(s) carrying its id -/
def reportsOf (tx : Nat) (log : List Msg) : List Info := (msgsOf tx log).filterMap Msg.report?
def respsOf (tx : Nat) (log : List Msg) : List Info := (msgsOf tx log).filterMap Msg.resp?

/-- adjacent duplicates removed (the response repeats the state of the report next to it) -/
def collapse : List St → List St
  | [] => []
  | [a] => [a]
  | a :: b :: rest => if a = b then collapse (b :: rest) else a :: collapse (b :: rest)

/-! ## consumer (`OperationsManager`) -/

structure Part where
  uid : Nat            -- identity of the report part object
  tx : Nat
  st : St
deriving DecidableEq, Repr

structure Pending where
  fut : Nat            -- the future (weakly referenced)
  parts : List Part
deriving DecidableEq, Repr

structure Result where
  fut : Nat
  st : St              -- `OperationResult.InvocationInfo.InvocationState`
  fromReport : Bool    -- InvocationInfo taken from a report part (else from the response)
  parts : List Part    -- `OperationResult.report_parts`
deriving DecidableEq, Repr

structure Cons where
  trans : Nat → Option Pending           -- `_transactions`
  recent : List Part                     -- `_last_operation_invoked_reports` (deque, oldest first)
  done : List Result                     -- every `set_result` call, in order
  dropped : List Nat                     -- futures the application no longer references
  maxlen : Nat

def Cons.init (maxlen : Nat) : Cons := ⟨fun _ => none, [], [], [], maxlen⟩

/-- `deque(maxlen).append` -/
def push (maxlen : Nat) (r : List Part) (x : Part) : List Part :=
  (r ++ [x]).drop ((r ++ [x]).length - maxlen)

def setT (f : Nat → Option Pending) (k : Nat) (v : Option Pending) : Nat → Option Pending :=
  fun j => if j = k then v else f j

inductive CEv
  | response (fut tx : Nat) (st : St)    -- `call_operation` after the HTTP round trip
  | part (p : Part)                      -- one report part inside `on_operation_invoked_report`
  | drop (fut : Nat)                     -- the application forgets the future
deriving DecidableEq, Repr

def cstep (c : Cons) : CEv → Cons
  | .response fut tx st =>
    let parts := c.recent.filter (fun p => p.tx = tx)
    match parts.find? (fun p => p.st.isFinal) with
    | some f => { c with done := c.done ++ [⟨fut, f.st, true, parts⟩] }
    | none =>
      if st.immediate then { c with done := c.done ++ [⟨fut, st, false, parts⟩] }
      else { c with trans := setT c.trans tx (some ⟨fut, parts⟩) }
  | .part p =>
    match c.trans p.tx with
    | some d =>
      if p.st.isFinal then
        let c' := { c with trans := setT c.trans p.tx none }
        if d.fut ∈ c.dropped then c' else { c' with done := c.done ++ [⟨d.fut, p.st, true, d.parts ++ [p]⟩] }
      else { c with trans := setT c.trans p.tx (some ⟨d.fut, d.parts ++ [p]⟩) }
    | none => { c with recent := push c.maxlen c.recent p }
  | .drop fut => { c with dropped := fut :: c.dropped }

def crun (c : Cons) : List CEv → Cons
  | [] => c
  | e :: es => crun (cstep c e) es

/-- the report parts of transaction `tx` among the events, in arrival order -/
def ownParts (tx : Nat) : List CEv → List Part
  | [] => []
  | .part p :: es => if p.tx = tx then p :: ownParts tx es else ownParts tx es
  | _ :: es => ownParts tx es

/-- all report parts among the events -/
def allParts : List CEv → List Part
  | [] => []
  | .part p :: es => p :: allParts es
  | _ :: es => allParts es

/-- the event does not belong to the call under observation: no response for the id or the future, future not dropped -/
def CEv.foreign (fut tx : Nat) : CEv → Bool
  | .response f t _ => f != fut && t != tx
  | .part _ => true
  | .drop f => f != fut

/-! ## the rendez-vous lock of the consumer (`_transactions_lock`)
The consumer model takes `response` (= the part of `call_operation` after the HTTP round trip) and `part` as atomic steps.
That is justified when each of them reads and writes the shared state (`_transactions`, the buffer of early parts, the
future) inside ONE critical section; the traced programs are generated and checked with `oneSection`. -/
namespace Sync

inductive CAct
  | acq | rel                 -- `with self._transactions_lock:` enter / leave
  | scanBuf | appendBuf       -- iterate / append to `_last_operation_invoked_reports`
  | lookup | getEntry | register | pop   -- `in` / `[]` / `[]=` / `pop` on `_transactions`
  | complete                  -- `future.set_result`
deriving DecidableEq, Repr

def CAct.isLock : CAct → Bool
  | .acq => true
  | .rel => true
  | _ => false

/-- the program is `acq; body; rel` with a non-empty body that contains no lock operation: every shared access of the
    step happens inside one and the same critical section -/
def oneSection : List CAct → Bool
  | .acq :: rest =>
    match rest.reverse with
    | .rel :: body => !body.isEmpty && body.all (fun a => !a.isLock)
    | _ => false
  | _ => false

end Sync

/-! ## the id lock: interleaving semantics of `generate_transaction_id` -/
namespace Lts

inductive Act
  | acq      -- `with self._transaction_id_lock:` enter
  | load     -- read `self._transaction_id` (left side of `+= 1`)
  | store    -- write `self._transaction_id` (value read + 1)
  | ret      -- read `self._transaction_id` for `return`
  | rel      -- leave the `with` block
deriving DecidableEq, Repr

def lockedProg : List Act := [.acq, .load, .store, .ret, .rel]
def unlockedProg : List Act := [.load, .store, .ret]
/-- the value is read for `return` after the lock was released -/
def lateReadProg : List Act := [.acq, .load, .store, .rel, .ret]

structure Thr where
  pc : Nat := 0
  tmp : Nat := 0
  res : Option Nat := none

structure Cfg where
  owner : Option Nat
  counter : Nat
  issued : List (Nat × Nat)    -- (thread, id) in the order the ids were returned
  thr : Nat → Thr

def Cfg.init (c0 : Nat) : Cfg := ⟨none, c0, [], fun _ => {}⟩

def upd (f : Nat → Thr) (i : Nat) (t : Thr) : Nat → Thr := fun j => if j = i then t else f j

/-- thread `i` executes its next action if it is enabled (a blocked `acq` is not a step) -/
def stepFn (prog : List Act) (c : Cfg) (i : Nat) : Option Cfg :=
  let t := c.thr i
  match prog[t.pc]? with
  | none => none
  | some .acq => if c.owner = none then some { c with owner := some i, thr := upd c.thr i { t with pc := t.pc + 1 } } else none
  | some .rel => if c.owner = some i then some { c with owner := none, thr := upd c.thr i { t with pc := t.pc + 1 } } else none
  | some .load => some { c with thr := upd c.thr i { t with pc := t.pc + 1, tmp := c.counter } }
  | some .store => some { c with counter := t.tmp + 1, thr := upd c.thr i { t with pc := t.pc + 1 } }
  | some .ret => some { c with issued := c.issued ++ [(i, c.counter)],
                               thr := upd c.thr i { t with pc := t.pc + 1, res := some c.counter } }

/-- any number of threads, any schedule -/
inductive Reach (prog : List Act) (c0 : Cfg) : Cfg → Prop
  | refl : Reach prog c0 c0
  | step {c c' i} : Reach prog c0 c → stepFn prog c i = some c' → Reach prog c0 c'

/-- run a schedule (list of thread numbers); entries whose thread is not enabled are skipped -/
def runSched (prog : List Act) (c : Cfg) : List Nat → Cfg
  | [] => c
  | i :: is => runSched prog ((stepFn prog c i).getD c) is

end Lts
end Sdc.Invocation
