/-!
# `XmlBinding` — the declarative property descriptors of `xml_structure.py`

One definition per descriptor *kind* giving `write : Val → Xml → Option Xml` (`update_xml_value`, `none` = the code
raises) and `read : Xml → Option Val` (`get_py_value_from_node` as seen through `update_from_node`). A class is an
ordered list of `(name, kind)` from the *generated* schema table (`Generated/Schema.lean`); `writeCls` / `readCls`
transcribe `XMLTypeBase.as_etree_node / from_node` and `ContainerBase.mk_node / from_node`.

Scalar converters (`dataconverters.py`, `text_to_qname`, `isoduration`) are *abstract*: a `Codec` maps a converter
identifier and a Python scalar (an opaque token) to its lexical form and back; the list forms (`' '.join`, `split`)
are part of the codec as well. Nested objects are reached through call-backs (`Wr`, `Rd`) so that every kind is a
first-order combinator; `writeCls` / `readCls` tie the knot with a depth bound (`fuel`).
XML: namespaces are resolved; element tags and attribute names are interned as numbers by the harness (injectively, from
their Clark notation; the table is part of `Generated/Schema.lean`), QName-valued content is resolved to Clark notation.
Text `""` stands for "no text" (`None` and `''` are the same after serialisation).
-/
namespace Sdc.XmlBinding

inductive Xml where
  | node (tag : Nat) (attrs : List (Nat × String)) (kids : List Xml) (text : String)
deriving Repr, Inhabited

inductive Val where
  | none
  | atom (s : String)                    -- a Python scalar (opaque token)
  | list (vs : List Val)
  | obj (cls : Nat) (fields : List Val)  -- instance of class `cls`; one field per property, in `_props` order
  | raw (xs : List Xml)                  -- lxml elements (extension content, any-content)
deriving Repr, Inhabited

structure Codec where
  toXml : String → String → Option String      -- converter id → python token → lexical form (`none` = raises)
  toPy : String → String → Option String       -- converter id → lexical form → python token
  join : List String → String                  -- `' '.join(items)`
  split : String → List String                 -- `text.split()` / `split(' ')` without empty items
  now : String                                 -- python token of `time.time()` (CurrentTimestampAttributeProperty)

/-- names (element tags, attribute names) are interned by the harness as numbers; 0 = `xsi:type` -/
abbrev Name := Nat

def xsiType : Name := 0

namespace Xml
def tag : Xml → Nat | node t _ _ _ => t
def attrs : Xml → List (Nat × String) | node _ a _ _ => a
def kids : Xml → List Xml | node _ _ k _ => k
def text : Xml → String | node _ _ _ x => x
def setAttrs (a : List (Nat × String)) : Xml → Xml | node t _ k x => node t a k x
def setKids (k : List Xml) : Xml → Xml | node t a _ x => node t a k x
def setText (x : String) : Xml → Xml | node t a k _ => node t a k x
def empty (tag : Nat) : Xml := node tag [] [] ""
end Xml

/-! ### attributes (order is irrelevant: the canonical form sorts them) -/
abbrev Attrs := List (Nat × String)
def getAttr (a : Attrs) (k : Nat) : Option String := (a.find? (·.1 == k)).map (·.2)
def delAttr (a : Attrs) (k : Nat) : Attrs := a.filter (fun p => !(p.1 == k))
def setAttr (a : Attrs) (k : Nat) (v : String) : Attrs := delAttr a k ++ [(k, v)]

/-! ### children -/
def named (n : Nat) (ks : List Xml) : List Xml := ks.filter (·.tag == n)
def firstNamed (n : Nat) (ks : List Xml) : Option Xml := ks.find? (·.tag == n)
def removeAll (n : Nat) (ks : List Xml) : List Xml := ks.filter (fun k => !(k.tag == n))
/-- `node.remove(node.find(n))` -/
def removeFirst (n : Nat) : List Xml → List Xml
  | [] => []
  | k :: ks => if k.tag == n then ks else k :: removeFirst n ks
/-- `_get_element_by_child_name(..., create_missing_nodes=True)` followed by an update of that element -/
def modifyFirst (n : Nat) (f : Xml → Xml) : List Xml → List Xml
  | [] => [f (Xml.empty n)]
  | k :: ks => if k.tag == n then f k :: ks else k :: modifyFirst n f ks

/-- update the element a property lives in: the node itself (`sub_element_name is None`) or its first / new child -/
def onElem (sub : Option Nat) (f : Xml → Xml) (x : Xml) : Xml :=
  match sub with
  | none => f x
  | some n => x.setKids (modifyFirst n f x.kids)

def elemOf (sub : Option Nat) (x : Xml) : Option Xml :=
  match sub with
  | none => some x
  | some n => firstNamed n x.kids

def dropElem (sub : Option Nat) (x : Xml) : Xml :=
  match sub with
  | none => x
  | some n => x.setKids (removeFirst n x.kids)

/-! ### the descriptor kinds -/
inductive TextStyle where
  | plain | enumQName | qname | date
deriving Repr, DecidableEq, Inhabited

inductive RawStyle where
  | ext | any | anyList
deriving Repr, DecidableEq, Inhabited

inductive Kind where
  /-- `_AttributeBase` (all scalar attribute properties; `volatile` = CurrentTimestampAttributeProperty) -/
  | attr (name : Nat) (conv : String) (optional volatile : Bool)
  /-- `_AttributeListBase` -/
  | attrList (name : Nat) (conv : String) (optional : Bool)
  /-- `NodeTextProperty` family, `NodeEnumQNameProperty`, `NodeTextQNameProperty`, `DateOfBirthProperty` -/
  | text (sub : Option Nat) (conv : String) (optional minLen : Bool) (style : TextStyle) (dflt : Option String)
  /-- `NodeTextListProperty`, `NodeTextQNameListProperty` -/
  | textList (sub : Option Nat) (conv : String) (optional : Bool)
  /-- `SubElementTextListProperty` -/
  | subTextList (name : Nat) (conv : String)
  /-- `SubElementProperty`, `ContainerProperty`, `SubElementWithSubElementListProperty` -/
  | sub (name : Option Nat) (cls : Nat) (optional container skipEmpty : Bool) (dispatch : Nat) (dflt : Option Val)
  /-- `SubElementListProperty`, `ContainerListProperty` -/
  | subList (name : Nat) (cls : Nat) (container : Bool) (dispatch : Nat)
  /-- `ExtensionNodeProperty`, `AnyEtreeNodeProperty`, `AnyEtreeNodeListProperty` -/
  | raw (sub : Option Nat) (style : RawStyle) (optional : Bool)
deriving Repr, Inhabited

structure PropE where
  name : String
  kind : Kind
deriving Repr, Inhabited

structure ClsE where
  name : String
  hasNT : Bool                 -- the class has a `NODETYPE` attribute
  nodeType : Option String     -- its value (`none` = `None`)
  props : List PropE
deriving Repr, Inhabited

structure Schema where
  classes : List ClsE
  types : List (Nat × String × Nat)    -- (registry, xsi:type QName, class) for `value_class_from_node` / `cls_getter`
deriving Repr, Inhabited

def Schema.cls (S : Schema) (c : Nat) : Option ClsE := S.classes[c]?
def Schema.props (S : Schema) (c : Nat) : List PropE := match S.cls c with | some e => e.props | none => []
def Schema.lookupType (S : Schema) (reg : Nat) (q : String) : Option Nat :=
  (S.types.find? fun t => t.1 == reg && t.2.1 == q).map (·.2.2)

abbrev Wr := Nat → List Val → Xml → Option Xml     -- write the properties of class c into a node
abbrev Rd := Nat → Xml → Option Val                -- read an instance of class c from a node

def mapM' {α β : Type} (f : α → Option β) : List α → Option (List β)
  | [] => some []
  | a :: as => match f a, mapM' f as with
    | some b, some bs => some (b :: bs)
    | _, _ => none

def atoms : List Val → Option (List String)
  | [] => some []
  | .atom s :: vs => (atoms vs).map (s :: ·)
  | _ :: _ => none

def Val.isEmptyObj : Val → Bool
  | .obj _ fs => fs.all fun f => match f with
    | .none => true
    | .list [] => true
    | .raw [] => true
    | _ => false
  | _ => false

/-- the `xsi:type` a nested value gets: none if its class is the declared one or their NODETYPEs agree -/
def xsiFor (S : Schema) (container : Bool) (decl actual : Nat) : Option (Option String) :=
  match S.cls decl, S.cls actual with
  | some d, some a =>
    if (container || (d.hasNT && a.hasNT)) && a.nodeType != d.nodeType then
      match a.nodeType with
      | some q => some (some q)
      | none => none                      -- `docname_from_qname(None, ...)` raises
    else some none
  | _, _ => none

def withXsi (t : Option String) (x : Xml) : Xml :=
  match t with
  | some q => x.setAttrs (setAttr x.attrs xsiType q)
  | none => x

/-- the class used to read a nested element (`value_class_from_node`, `cls_getter`) -/
def readClass (S : Schema) (dispatch decl : Nat) (x : Xml) : Option Nat :=
  if dispatch = 0 then some decl
  else match getAttr x.attrs xsiType with
    | none => some decl
    | some q => S.lookupType dispatch q

def writeItems (S : Schema) (wr : Wr) (name : Nat) (decl : Nat) (container : Bool) : List Val → Option (List Xml)
  | [] => some []
  | .obj c fs :: vs =>
    match wr c fs (Xml.empty name), xsiFor S container decl c, writeItems S wr name decl container vs with
    | some ch, some t, some chs => some (withXsi t ch :: chs)
    | _, _, _ => none
  | _ :: _ => none

/-- `update_xml_value` -/
def writeKind (C : Codec) (S : Schema) (wr : Wr) : Kind → Val → Xml → Option Xml
  | .attr n conv opt vol, v, x =>
    match (if vol then Val.atom C.now else v) with
    | .none => if opt then some (x.setAttrs (delAttr x.attrs n)) else none
    | .atom s => (C.toXml conv s).map fun l => x.setAttrs (setAttr x.attrs n l)
    | _ => none
  | .attrList n conv opt, v, x =>
    match v with
    | .none => if opt then some (x.setAttrs (delAttr x.attrs n)) else none
    | .list vs =>
      if vs.isEmpty && opt then some (x.setAttrs (delAttr x.attrs n))
      else match atoms vs with
        | some ss => (mapM' (C.toXml conv) ss).map fun ls => x.setAttrs (setAttr x.attrs n (C.join ls))
        | none => none
    | _ => none
  | .text sub conv opt minLen style _, v, x =>
    match v with
    | .none =>
      match style with
      | .date => some (dropElem sub x)
      | .qname =>
        if sub.isNone then some (x.setText "")
        else if opt then some (dropElem sub x) else none
      | _ =>
        if !opt && minLen then none
        else if sub.isNone then some (x.setText "")
        else if opt then some (dropElem sub x)
        else some (onElem sub (·.setText "") x)
    | .atom s => (C.toXml conv s).map fun l => onElem sub (·.setText l) x
    | _ => none
  | .textList sub conv opt, v, x =>
    match v with
    | .none =>
      if sub.isNone then some (x.setText "")
      else if opt then some (dropElem sub x) else none
    | .list vs => match atoms vs with
      | some ss => (mapM' (C.toXml conv) ss).map fun ls => onElem sub (·.setText (C.join ls)) x
      | none => none
    | _ => none
  | .subTextList n conv, v, x =>
    match v with
    | .none => some x
    | .list [] => some x
    | .list vs => match atoms vs with
      | some ss => (mapM' (C.toXml conv) ss).map fun ls =>
          x.setKids (removeAll n x.kids ++ ls.map fun l => (Xml.empty n).setText l)
      | none => none
    | _ => none
  | .sub name decl opt container skipEmpty _ _, v, x =>
    match v with
    | .none => if opt || skipEmpty then some x else none
    | .obj c fs =>
      if skipEmpty && (Val.obj c fs).isEmptyObj then some x
      else match name with
        | none =>        -- the container lives in the node itself (`update_node`)
          match wr c fs x, xsiFor S container decl c with
          | some x', some t => some (withXsi t x')
          | _, _ => none
        | some n =>
          match wr c fs (Xml.empty n), xsiFor S container decl c with
          | some ch, some t =>
            some (x.setKids ((if container || skipEmpty then removeFirst n x.kids else x.kids) ++ [withXsi t ch]))
          | _, _ => none
    | _ => none
  | .subList n decl container _, v, x =>
    match v with
    | .none => some (if container then x.setKids (removeAll n x.kids) else x)
    | .list vs => (writeItems S wr n decl container vs).map fun chs =>
        x.setKids ((if container then removeAll n x.kids else x.kids) ++ chs)
    | _ => none
  | .raw sub style opt, v, x =>
    match style, v with
    | .ext, .none => some x
    | .ext, .raw [] => some x
    | .ext, .raw xs => some (onElem sub (fun e => e.setKids (e.kids ++ xs)) x)
    | .any, .none => if opt then some (dropElem sub x) else none
    | .any, .raw xs => some (onElem sub (fun e => e.setKids (e.kids ++ xs)) x)
    | .anyList, .none => some (if opt then dropElem sub x else x)
    | .anyList, .raw [] => some (if opt then dropElem sub x else x)
    | .anyList, .raw xs => some (onElem sub (fun e => e.setKids (e.kids ++ xs)) x)
    | _, _ => none

def readItems (S : Schema) (rd : Rd) (dispatch decl : Nat) : List Xml → Option (List Val)
  | [] => some []
  | ch :: chs => match (readClass S dispatch decl ch).bind (fun c => rd c ch), readItems S rd dispatch decl chs with
    | some v, some vs => some (v :: vs)
    | _, _ => none

/-- `get_py_value_from_node` + `update_from_node` (the value the instance holds afterwards) -/
def readKind (C : Codec) (S : Schema) (rd : Rd) : Kind → Xml → Option Val
  | .attr n conv _ _, x =>
    match getAttr x.attrs n with
    | none => some .none
    | some l => (C.toPy conv l).map Val.atom
  | .attrList n conv _, x =>
    match getAttr x.attrs n with
    | none => some (.list [])
    | some l => (mapM' (C.toPy conv) (C.split l)).map fun ts => .list (ts.map Val.atom)
  | .text sub conv _ _ style dflt, x =>
    match elemOf sub x with
    | none => some (match style, dflt with
        | .enumQName, some d => .atom d
        | _, _ => .none)
    | some e =>
      if style == .qname && e.text == "" then some .none
      else (C.toPy conv e.text).map Val.atom
  | .textList sub conv _, x =>
    match elemOf sub x with
    | none => some (.list [])
    | some e => (mapM' (C.toPy conv) (C.split e.text)).map fun ts => .list (ts.map Val.atom)
  | .subTextList n conv, x =>
    (mapM' (fun (e : Xml) => C.toPy conv e.text) (named n x.kids)).map fun ts => .list (ts.map Val.atom)
  | .sub name decl _ _ _ dispatch dflt, x =>
    match elemOf name x with
    | none => some (dflt.getD .none)
    | some e => (readClass S dispatch decl e).bind fun c => rd c e
  | .subList n decl _ dispatch, x => (readItems S rd dispatch decl (named n x.kids)).map Val.list
  | .raw sub style _, x =>
    match elemOf sub x with
    | none => some (match style with
        | .any => .none
        | _ => .raw [])
    | some e => some (.raw e.kids)

def writeProps (C : Codec) (S : Schema) (wr : Wr) : List PropE → List Val → Xml → Option Xml
  | [], _, x => some x
  | _ :: _, [], _ => none
  | p :: ps, v :: vs, x => match writeKind C S wr p.kind v x with
    | some x' => writeProps C S wr ps vs x'
    | none => none

def readProps (C : Codec) (S : Schema) (rd : Rd) (ps : List PropE) (x : Xml) : Option (List Val) :=
  mapM' (fun (p : PropE) => readKind C S rd p.kind x) ps

/-- `update_node` of class `c` (depth bound `fuel`) -/
def writeInto (C : Codec) (S : Schema) : Nat → Wr
  | 0 => fun _ _ _ => none
  | f + 1 => fun c fs x =>
    if fs.length = (S.props c).length then writeProps C S (writeInto C S f) (S.props c) fs x else none

/-- `from_node` of class `c` -/
def readCls (C : Codec) (S : Schema) : Nat → Rd
  | 0 => fun _ _ => none
  | f + 1 => fun c x => (readProps C S (readCls C S f) (S.props c) x).map (Val.obj c)

/-- `as_etree_node(tag)` / `mk_node(tag)` -/
def writeCls (C : Codec) (S : Schema) (fuel : Nat) (c : Nat) (fs : List Val) (tag : Nat) : Option Xml :=
  writeInto C S fuel c fs (Xml.empty tag)

/-! ## footprints, well-typed values, the decidable side condition on a class -/

/-- the part of an element a descriptor reads and writes -/
inductive Fp where
  | attr (n : Nat)
  | child (n : Nat)
  | selfText
  | selfKids
  | whole
deriving Repr, DecidableEq

def Kind.fp : Kind → Fp
  | .attr n _ _ _ => .attr n
  | .attrList n _ _ => .attr n
  | .text (some n) _ _ _ _ _ => .child n
  | .text none _ _ _ _ _ => .selfText
  | .textList (some n) _ _ => .child n
  | .textList none _ _ => .selfText
  | .subTextList n _ => .child n
  | .sub (some n) _ _ _ _ _ _ => .child n
  | .sub none _ _ _ _ _ _ => .whole
  | .subList n _ _ _ => .child n
  | .raw (some n) _ _ => .child n
  | .raw none _ _ => .selfKids

/-- two footprints that cannot interfere -/
def Fp.indep : Fp → Fp → Bool
  | .attr a, .attr b => a != b
  | .attr _, .child _ | .child _, .attr _ => true
  | .attr _, .selfText | .selfText, .attr _ => true
  | .attr _, .selfKids | .selfKids, .attr _ => true
  | .child a, .child b => a != b
  | .child _, .selfText | .selfText, .child _ => true
  | .selfText, .selfKids | .selfKids, .selfText => true
  | _, _ => false

def pairwiseIndep : List Fp → Bool
  | [] => true
  | f :: fs => fs.all (fun g => f.indep g && g.indep f) && pairwiseIndep fs

/-- the decidable side condition on a class of the generated table: the XML names of its members are pairwise distinct
    (so they cannot interfere), and no member uses the `xsi:type` attribute or the whole node -/
def ClsE.ok (e : ClsE) : Bool :=
  pairwiseIndep (e.props.map (·.kind.fp)) && e.props.all fun p => (Fp.attr xsiType).indep p.kind.fp

def Schema.okCls (S : Schema) (c : Nat) : Bool :=
  match S.cls c with
  | some e => e.ok
  | none => false

/-- converter round trip for one scalar (the hypothesis per converter; C18 proves it for the scalar converters) -/
def Codec.RT (C : Codec) (conv s : String) : Prop := ∃ l, C.toXml conv s = some l ∧ C.toPy conv l = some s

/-- a list of scalars whose lexical forms survive `' '.join` / `split` -/
def WTatoms (C : Codec) (conv : String) (joined : Bool) (vs : List Val) : Prop :=
  ∃ ss ls, atoms vs = some ss ∧ mapM' (C.toXml conv) ss = some ls ∧ mapM' (C.toPy conv) ls = some ss ∧
    (joined = true → C.split (C.join ls) = ls)

/-- a nested value of class `c` under a member declared with class `decl`: its `xsi:type` (if any) resolves to `c` -/
def WTnested (S : Schema) (container : Bool) (dispatch decl c : Nat) : Prop :=
  ∃ t, xsiFor S container decl c = some t ∧
    match t with
    | none => c = decl
    | some q => dispatch ≠ 0 ∧ S.lookupType dispatch q = some c

/-- value `v` is in the round-trip domain of a member of kind `k`; `P c fs` = "the nested instance is well typed" -/
def WTk (C : Codec) (S : Schema) (P : Nat → List Val → Prop) : Kind → Val → Prop
  | .attr _ conv opt vol, v =>
    (vol = true → v = .atom C.now) ∧ ((v = .none ∧ opt = true ∧ vol = false) ∨ ∃ s, v = .atom s ∧ C.RT conv s)
  | .attrList _ conv _, v => ∃ vs, v = .list vs ∧ WTatoms C conv true vs
  | .text sub conv opt _ style dflt, v =>
    (v = .none ∧ sub.isSome = true ∧ opt = true ∧ ¬ (style = .enumQName ∧ dflt.isSome = true)) ∨
    ∃ s l, v = .atom s ∧ C.toXml conv s = some l ∧ C.toPy conv l = some s ∧ (style = .qname → l ≠ "")
  | .textList _ conv _, v => ∃ vs, v = .list vs ∧ WTatoms C conv true vs
  | .subTextList _ conv, v => ∃ vs, v = .list vs ∧ WTatoms C conv false vs
  | .sub name decl opt container skipEmpty dispatch dflt, v =>
    name.isSome = true ∧
    ((v = .none ∧ (opt = true ∨ skipEmpty = true) ∧ dflt = none) ∨
     (skipEmpty = true ∧ v.isEmptyObj = true ∧ dflt = some v) ∨
     ∃ c fs, v = .obj c fs ∧ ¬ (skipEmpty = true ∧ v.isEmptyObj = true) ∧ P c fs ∧ WTnested S container dispatch decl c)
  | .subList _ decl container dispatch, v =>
    ∃ vs, v = .list vs ∧ ∀ w ∈ vs, ∃ c fs, w = .obj c fs ∧ P c fs ∧ WTnested S container dispatch decl c
  | .raw sub style opt, v =>
    match style with
    | .ext => ∃ xs, v = .raw xs
    | .any => (v = .none ∧ opt = true ∧ sub.isSome = true) ∨ ∃ xs, v = .raw xs
    | .anyList => ∃ xs, v = .raw xs

def WTprops (C : Codec) (S : Schema) (P : Nat → List Val → Prop) : List PropE → List Val → Prop
  | [], [] => True
  | p :: ps, v :: vs => WTk C S P p.kind v ∧ WTprops C S P ps vs
  | _, _ => False

/-- well-typed instance of class `c` of nesting depth `< fuel` -/
def WT (C : Codec) (S : Schema) : Nat → Nat → List Val → Prop
  | 0 => fun _ _ => False
  | f + 1 => fun c fs => S.okCls c = true ∧ WTprops C S (WT C S f) (S.props c) fs

/-! ## what the API user reads (`__get__`) -/

/-- `_XmlStructureBaseProperty.__get__`: the stored value; the implied value of the member only when nothing is stored -/
def publicRead (implied : Option String) : Val → Val
  | .none => match implied with
    | some s => .atom s
    | none => .none
  | v => v

/-- implied values of a table: class ↦ member index ↦ python token -/
abbrev Implied := List (Nat × Nat × String)

def Implied.get (I : Implied) (c k : Nat) : Option String := (I.find? fun e => e.1 == c && e.2.1 == k).map (·.2.2)

mutual
/-- the value of an instance as read through the public attributes, recursively -/
def publicVal (I : Implied) : Val → Val
  | .obj c fs => .obj c (publicFields I c 0 fs)
  | .list vs => .list (publicList I vs)
  | v => v
def publicFields (I : Implied) (c : Nat) : Nat → List Val → List Val
  | _, [] => []
  | k, v :: vs => publicRead (I.get c k) (publicVal I v) :: publicFields I c (k + 1) vs
def publicList (I : Implied) : List Val → List Val
  | [] => []
  | v :: vs => publicVal I v :: publicList I vs
end

/-- a present value — also a falsy one (0, false, PT0S, '') — is what the user reads -/
theorem publicRead_present (implied : Option String) (v : Val) (h : v ≠ .none) : publicRead implied v = v := by
  cases v <;> simp_all [publicRead]

/-- an absent value reads as the implied value -/
theorem publicRead_absent (implied : String) : publicRead (some implied) .none = .atom implied := rfl

/-! ## the bundled XML schemas as independent reference

`Generated/XsdTable.lean` is produced by a plain walk over `/repo/src/sdc11073/xsd/*.xsd` (`harness/xsdtable.py`): for
every class of the Python table that stands for an XSD complex type / global element (by `NODETYPE`, or as the value
class of a member whose element has an anonymous type) the flattened, ordered child elements and the attributes of
that type. `xsdDeviations` relates the Python declarations to it. Names, type names and lexical forms are interned. -/

structure XsdElem where
  name : Nat
  type : Nat          -- interned complex type of the element (0 = simple type / not a complex type of the schemas)
  min : Nat
  many : Bool         -- maxOccurs > 1
deriving Repr, Inhabited

structure XsdAttr where
  name : Nat
  required : Bool
  dflt : Option Nat   -- interned lexical form of the XSD default
deriving Repr, Inhabited

structure XsdLink where
  typeId : Nat                   -- the XSD type the class stands for (0 = none: the class is not compared)
  elems : List XsdElem
  attrs : List XsdAttr
  anyElem : Bool
  anyAttr : Bool
  implied : List (Nat × Nat)     -- attribute name ↦ interned lexical form of the implied (or default) value of the class
deriving Repr, Inhabited

def findElem (n : Nat) : List XsdElem → Nat → Option (Nat × XsdElem)
  | [], _ => none
  | e :: es, i => if e.name == n then some (i, e) else findElem n es (i + 1)

def findAttr (n : Nat) (l : List XsdAttr) : Option XsdAttr := l.find? (·.name == n)

/-- deviation codes: 1 order, 2 element unknown to the XSD type, 3 value class ≠ XSD element type, 4 list vs single,
    5 attribute unknown to the XSD type, 6 required attribute declared optional, 7 implied value ≠ XSD default -/
def attrDevs (lk : XsdLink) (n : Nat) (opt withDefault : Bool) : List (Nat × Nat) :=
  match findAttr n lk.attrs with
  | none => if lk.anyAttr then [] else [(n, 5)]
  | some a =>
    (if a.required && opt then [(n, 6)] else []) ++
    (match a.dflt with
     | some d => if withDefault && (lk.implied.find? (·.1 == n)).map (·.2) != some d then [(n, 7)] else []
     | none => [])

/-- `(deviations, position of the member in the XSD sequence)` of an element member -/
def elemDevs (L : List XsdLink) (lk : XsdLink) (last : Nat) (n : Nat) (isList single : Bool) (valueCls : Option Nat) :
    List (Nat × Nat) × Nat :=
  match findElem n lk.elems 0 with
  | none => (if lk.anyElem then [] else [(n, 2)], last)
  | some (i, xe) =>
    ((if i < last then [(n, 1)] else []) ++
     (if (isList && !xe.many) || (single && xe.many) then [(n, 4)] else []) ++
     (match valueCls with
      | some c => if xe.type != 0 && (match L[c]? with | some l => l.typeId | none => 0) != xe.type then [(n, 3)] else []
      | none => []),
     max last i)

def propDevs (L : List XsdLink) (lk : XsdLink) : List PropE → Nat → List (Nat × Nat)
  | [], _ => []
  | p :: ps, last =>
    match p.kind with
    | .attr n _ opt _ => attrDevs lk n opt true ++ propDevs L lk ps last
    | .attrList n _ opt => attrDevs lk n opt false ++ propDevs L lk ps last
    | .text (some n) _ _ _ _ _ => let r := elemDevs L lk last n false true none; r.1 ++ propDevs L lk ps r.2
    | .textList (some n) _ _ => let r := elemDevs L lk last n false false none; r.1 ++ propDevs L lk ps r.2
    | .subTextList n _ => let r := elemDevs L lk last n true false none; r.1 ++ propDevs L lk ps r.2
    | .sub (some n) c _ _ _ _ _ => let r := elemDevs L lk last n false true (some c); r.1 ++ propDevs L lk ps r.2
    | .subList n c _ _ => let r := elemDevs L lk last n true false (some c); r.1 ++ propDevs L lk ps r.2
    | .raw (some n) _ _ => let r := elemDevs L lk last n false false none; r.1 ++ propDevs L lk ps r.2
    | _ => propDevs L lk ps last

def clsDevs (L : List XsdLink) : List ClsE → List XsdLink → Nat → List (Nat × Nat × Nat)
  | e :: es, lk :: lks, i =>
    (if lk.typeId == 0 then [] else (propDevs L lk e.props 0).map fun d => (i, d.1, d.2)) ++ clsDevs L es lks (i + 1)
  | _, _, _ => []

/-- all deviations `(class, member name, code)` of the table `S` from the XSD reference `L` -/
def xsdDeviations (S : Schema) (L : List XsdLink) : List (Nat × Nat × Nat) := clsDevs L S.classes L 0

/-- the decidable predicate: the Python table matches the bundled schemas up to the listed exceptions -/
def schemaMatchesXsd (S : Schema) (L : List XsdLink) (exceptions : List (Nat × Nat × Nat)) : Bool :=
  xsdDeviations S L == exceptions

end Sdc.XmlBinding
