import SdcModel.Location
import SdcModel.Discovery
/-!
# M `LocationSearch` — `WSDiscovery.search_sdc_device_services_in_location` (src/sdc11073/wsdiscovery/wsdimpl.py)

The public entry point that puts the two mechanisms together: all discovered services that offer the SDC device types
(`search_sdc_services` = `filter_services(remote, MedicalDeviceTypesFilter, scopes=None)`; the probing before it only
fills the remote table) are filtered locally with `SdcLocation.filter_services_inside`. No scopes are sent with the
probe: WS-Discovery prefix matching is *not* location containment.
-/
namespace Sdc.LocationSearch
open Sdc.Location Sdc.Discovery

inductive Err
  | discovery (e : Discovery.Err)   -- from `filter_services` (a service without a types list)
  | location (e : Location.Err)     -- from `filter_services_inside` (none escapes, property C16)
deriving DecidableEq, Repr

/-- the scope strings of a discovered service, `none` when it has no Scopes element -/
def scopesOf (s : Service) : Option (List Bytes) := s.scopes.map (·.text)

/-- `search_sdc_device_services_in_location(sdc_location)` on the table of discovered services -/
def searchInLocation (chk : Bytes → Bool) (r : Rules) (self : Loc) (deviceTypes : List QName) (remote : List Service) :
    Except Err (List Service) :=
  match filterServices chk r (some deviceTypes) none remote with
  | .error e => .error (.discovery e)
  | .ok l =>
    match filterInside chk self scopesOf l with
    | .error e => .error (.location e)
    | .ok l' => .ok l'

end Sdc.LocationSearch
