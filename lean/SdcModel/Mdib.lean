import SdcModel.MdibTypes
/-!
# M3 provider side: MDIB tables, transactions, commit, transaction result, reports

Transcription of `mdib/transactions.py`, `mdib/providermdib.py::_transaction_manager`,
`mdib/mdibbase.py` (version lookups, `rm_descriptors_and_states`, subtree), and
`provider/providerimpl.py::_send_episodic_reports` at the level of keyed records.
Tables are lists with unique keys (the unique indices of the real tables); `remove old` is removal by key,
which coincides with the code's removal by identity because a key is never re-bound inside one commit.
The application's writes into handed-out copies are `setBody` calls (`body` = interned canonical content).
-/
namespace Sdc.Mdib

/-! ## tables -/

structure Tables where
  ver : Nat := 0
  descrs : List Descr := []
  states : List SState := []
  ctx : List CState := []
  dSaved : List (Handle × Nat) := []   -- descriptions.handle_version_lookup
  sSaved : List (Handle × Nat) := []   -- states.handle_version_lookup
  cSaved : List (Handle × Nat) := []   -- context_states.handle_version_lookup
deriving Repr, DecidableEq

def savedGet (l : List (Handle × Nat)) (h : Handle) : Option Nat := (l.find? (fun p => p.1 == h)).map (·.2)
def savedSet (l : List (Handle × Nat)) (h : Handle) (v : Nat) : List (Handle × Nat) :=
  (h, v) :: l.filter (fun p => p.1 != h)

def findD (t : Tables) (h : Handle) : Option Descr := t.descrs.find? (fun d => d.handle == h)
def findS (t : Tables) (h : Handle) : Option SState := t.states.find? (fun s => s.dh == h)
def findC (t : Tables) (h : Handle) : Option CState := t.ctx.find? (fun c => c.h == h)
def ctxOf (t : Tables) (dh : Handle) : List CState := t.ctx.filter (fun c => c.dh == dh)
def childrenOf (t : Tables) (h : Handle) : List Descr := t.descrs.filter (fun d => d.parent == some h)

/-- `_MultikeyWithVersionLookup.remove_object*`: save the version, drop the object -/
def rmState (t : Tables) (h : Handle) : Tables :=
  match findS t h with
  | none => t
  | some s => { t with states := t.states.filter (fun x => x.dh != h), sSaved := savedSet t.sSaved h s.sv }
def rmCtx (t : Tables) (h : Handle) : Tables :=
  match findC t h with
  | none => t
  | some c => { t with ctx := t.ctx.filter (fun x => x.h != h), cSaved := savedSet t.cSaved h c.sv }
def rmDescr (t : Tables) (h : Handle) : Tables :=
  match findD t h with
  | none => t
  | some d => { t with descrs := t.descrs.filter (fun x => x.handle != h), dSaved := savedSet t.dSaved h d.ver }

inductive Err | valueError | keyError | apiUsage | attributeError | notImplemented
deriving DecidableEq, Repr

/-- `add_object_no_lock`: unique index on the key; a duplicate raises KeyError and leaves the table as it was -/
def addState (t : Tables) (s : SState) : Except Err Tables :=
  if (findS t s.dh).isSome then .error .keyError else .ok { t with states := t.states ++ [s] }
def addCtx (t : Tables) (c : CState) : Except Err Tables :=
  if (findC t c.h).isSome then .error .keyError else .ok { t with ctx := t.ctx ++ [c] }
def addDescr (t : Tables) (d : Descr) : Except Err Tables :=
  if (findD t d.handle).isSome then .error .keyError else .ok { t with descrs := t.descrs ++ [d] }

/-! ## insertion-ordered dicts (Python `dict`: re-assignment keeps the position) -/

def dictGet {α} (l : List (Handle × α)) (h : Handle) : Option α := (l.find? (fun p => p.1 == h)).map (·.2)
def dictSet {α} (l : List (Handle × α)) (h : Handle) (v : α) : List (Handle × α) :=
  if (l.any (fun p => p.1 == h)) then l.map (fun p => if p.1 == h then (h, v) else p) else l ++ [(h, v)]
def dictDel {α} (l : List (Handle × α)) (h : Handle) : List (Handle × α) := l.filter (fun p => p.1 != h)

/-! ## state transactions (alert | metric | component | operational | rt) -/

structure SItem where
  old : Option SState
  new : SState
deriving Repr, DecidableEq

inductive SCall
  | get (h : Handle)                 -- get_state
  | unget (h : Handle)               -- unget_state
  | setBody (h : Handle) (b : Nat)   -- the application writes into the copy it was handed
  | write (h : Handle) (kind : Kind) (sv : Nat) (b : Nat) (multi : Bool)
      -- write_entity(entity): entity.state has kind/StateVersion/body; `multi` = entity.is_multi_state
deriving Repr, DecidableEq

structure STx where
  kind : Kind
  items : List (Handle × SItem) := []
deriving Repr, DecidableEq

def sCall (t : Tables) (tx : STx) : SCall → Except Err STx
  | .get h =>
    if (dictGet tx.items h).isSome then .error .valueError else
    match findS t h with
    | none => .error .keyError
    | some s =>
      if s.kind != tx.kind then .error .apiUsage else
      .ok { tx with items := dictSet tx.items h ⟨some s, { s with sv := s.sv + 1 }⟩ }
  | .unget h => .ok { tx with items := dictDel tx.items h }
  | .setBody h b =>
    match dictGet tx.items h with
    | none => .error .keyError          -- harness never does this (no object to write into)
    | some it => .ok { tx with items := dictSet tx.items h { it with new := { it.new with body := b } } }
  | .write h kind sv b multi =>
    if multi then .error .apiUsage else
    if kind != tx.kind then .error .apiUsage else
    match findD t h with
    | none => .error .keyError
    | some d =>
      let old := findS t h
      let sv' := match old with
        | some o => o.sv + 1
        | none => match savedGet t.sSaved h with
          | some v => v + 1
          | none => sv
      .ok { tx with items := dictSet tx.items h ⟨old, ⟨h, d.ver, sv', kind, b⟩⟩ }

/-- `_handle_state_updates` for single states; on a failing `add_object` the effects so far stay (as in the code) -/
def applySItems (t : Tables) : List (Handle × SItem) → Tables × List SState × Option Err
  | [] => (t, [], none)
  | (_, it) :: rest =>
    let t1 := match it.old with
      | some o => rmState t o.dh
      | none => t
    match addState t1 it.new with
    | .error e => (t1, [], some e)
    | .ok t2 =>
      let (t3, ups, e) := applySItems t2 rest
      (t3, it.new :: ups, e)

/-- what one transaction hands to the observers (`TransactionResult`) -/
structure TxResult where
  descrUpdated : List Descr := []
  descrCreated : List Descr := []
  descrDeleted : List Descr := []
  metric : List SState := []
  alert : List SState := []
  comp : List SState := []
  ctx : List CState := []
  op : List SState := []
  rt : List SState := []
deriving Repr, DecidableEq

def TxResult.isEmpty (r : TxResult) : Bool :=
  r.descrUpdated.isEmpty && r.descrCreated.isEmpty && r.descrDeleted.isEmpty && r.metric.isEmpty && r.alert.isEmpty
  && r.comp.isEmpty && r.ctx.isEmpty && r.op.isEmpty && r.rt.isEmpty

def TxResult.putStates (r : TxResult) (k : Kind) (l : List SState) : TxResult :=
  match k with
  | .metric => { r with metric := r.metric ++ l }
  | .alert => { r with alert := r.alert ++ l }
  | .component => { r with comp := r.comp ++ l }
  | .operational => { r with op := r.op ++ l }
  | .rt => { r with rt := r.rt ++ l }
  | .context => r

/-- `process_transaction` of the five state transaction classes; `some e`: the commit died with `e` after the effects in the returned tables -/
def commitS (t : Tables) (tx : STx) : Tables × TxResult × Option Err :=
  if tx.items.isEmpty then (t, {}, none) else
  let (t', ups, e) := applySItems { t with ver := t.ver + 1 } tx.items
  (t', ({} : TxResult).putStates tx.kind ups, e)

/-! ## context state transaction -/

structure CItem where
  old : Option CState
  new : Option CState     -- none: deleted through write_entity
deriving Repr, DecidableEq

inductive CCall
  | get (h : Handle)
  | mk (dh : Handle) (h : Handle) (explicit : Bool) (assoc : Bool) (body : Nat) (now : Nat)
      -- mk_context_state(dh, h if explicit else None (uuid = h), set_associated); body = content of the fresh container
  | setBody (h : Handle) (b : Nat)
  | setAssoc (h : Handle) (a : Assoc)
  | disassociateAll (dh : Handle) (ignored : Option Handle) (now : Nat)
  | del (h : Handle)                 -- write_entity(entity, [h]) with the state removed from the entity
deriving Repr, DecidableEq

structure CTx where
  newVer : Nat
  items : List (Handle × CItem) := []
deriving Repr, DecidableEq

def cGet (t : Tables) (tx : CTx) (h : Handle) : Except Err (CTx × CState) :=
  if (dictGet tx.items h).isSome then .error .valueError else
  match findC t h with
  | none => .error .keyError
  | some c =>
    let c' := { c with sv := c.sv + 1 }
    .ok ({ tx with items := dictSet tx.items h ⟨some c, some c'⟩ }, c')

def disassocLoop (t : Tables) (now : Nat) (ignored : Option Handle) : CTx → List CState → Except Err CTx
  | tx, [] => .ok tx
  | tx, c :: rest =>
    if some c.h == ignored || (dictGet tx.items c.h).isSome then disassocLoop t now ignored tx rest else
    if c.assoc != .dis || c.unbindV.isNone then
      match cGet t tx c.h with
      | .error e => .error e
      | .ok (tx1, c1) =>
        let c2 := { c1 with assoc := .dis }
        let c3 := if c2.unbindV.isNone then { c2 with unbindV := some tx.newVer, unbindT := some now } else c2
        disassocLoop t now ignored { tx1 with items := dictSet tx1.items c.h ⟨some c, some c3⟩ } rest
    else disassocLoop t now ignored tx rest

def cCall (t : Tables) (tx : CTx) : CCall → Except Err CTx
  | .get h => (cGet t tx h).map (·.1)
  | .mk dh h explicit assoc body now =>
    if explicit && (dictGet tx.items h).isSome then .error .valueError else
    match findD t dh with
    | none => .error .keyError
    | some d =>
      if d.kind != .context then .error .valueError else
      if explicit && (findC t h).isSome then .error .valueError else
      let sv := if explicit then (match savedGet t.cSaved h with | some v => v + 1 | none => 0) else 0
      let c : CState := { h := h, dh := dh, dv := d.ver, sv := sv, body := body,
                          assoc := if assoc then .assoc else .no,
                          bindV := if assoc then some tx.newVer else none, unbindV := none,
                          bindT := if assoc then some now else none, unbindT := none }
      .ok { tx with items := dictSet tx.items h ⟨none, some c⟩ }
  | .setBody h b =>
    match dictGet tx.items h with
    | some ⟨o, some c⟩ => .ok { tx with items := dictSet tx.items h ⟨o, some { c with body := b }⟩ }
    | _ => .error .keyError
  | .setAssoc h a =>
    match dictGet tx.items h with
    | some ⟨o, some c⟩ => .ok { tx with items := dictSet tx.items h ⟨o, some { c with assoc := a }⟩ }
    | _ => .error .keyError
  | .disassociateAll dh ignored now => disassocLoop t now ignored tx (ctxOf t dh)
  | .del h =>
    match findC t h with
    | none => .error .keyError
    | some c => .ok { tx with items := dictSet tx.items h ⟨some c, none⟩ }

/-- `_handle_state_updates` for context states; a `(old, None)` item removes the state and reports nothing
    (repaired code; the pinned tree crashed here after adding `None` to the table) -/
def applyCItems (t : Tables) : List (Handle × CItem) → Tables × List CState × Option Err
  | [] => (t, [], none)
  | (_, it) :: rest =>
    let t1 := match it.old with
      | some o => rmCtx t o.h
      | none => t
    match it.new with
    | none => applyCItems t1 rest
    | some n =>
      match addCtx t1 n with
      | .error e => (t1, [], some e)
      | .ok t2 =>
        let (t3, ups, e) := applyCItems t2 rest
        (t3, n :: ups, e)

def commitC (t : Tables) (tx : CTx) : Tables × TxResult × Option Err :=
  if tx.items.isEmpty then (t, {}, none) else
  let (t', ups, e) := applyCItems { t with ver := t.ver + 1 } tx.items
  (t', { ctx := ups }, e)

/-! ## scripts: what the application does inside one `with mdib.xxx_transaction()` block -/

inductive Outcome | committed | empty | aborted | rejected | commitFailed
deriving DecidableEq, Repr

/-- run the calls; a rejected call propagates out of the `with` block unless `catchErrors` (caught and continued) -/
def runCalls {σ κ} (f : σ → κ → Except Err σ) (catchErrors : Bool) : σ → List κ → Except Err σ
  | s, [] => .ok s
  | s, c :: cs =>
    match f s c with
    | .ok s' => runCalls f catchErrors s' cs
    | .error e => if catchErrors then runCalls f catchErrors s cs else .error e

structure SScript where
  kind : Kind
  calls : List SCall
  catchErrors : Bool := false
  raiseAtEnd : Bool := false    -- application code raises after the calls
deriving Repr, DecidableEq

def runS (t : Tables) (s : SScript) : Tables × TxResult × Outcome :=
  match runCalls (sCall t) s.catchErrors { kind := s.kind } s.calls with
  | .error _ => (t, {}, .rejected)
  | .ok tx =>
    if s.raiseAtEnd then (t, {}, .aborted) else
    match commitS t tx with
    | (t', _, some _) => (t', {}, .commitFailed)
    | (t', r, none) => (t', r, if tx.items.isEmpty then .empty else .committed)

structure CScript where
  calls : List CCall
  catchErrors : Bool := false
  raiseAtEnd : Bool := false
deriving Repr, DecidableEq

def runC (t : Tables) (s : CScript) : Tables × TxResult × Outcome :=
  match runCalls (cCall t) s.catchErrors { newVer := t.ver + 1 } s.calls with
  | .error _ => (t, {}, .rejected)
  | .ok tx =>
    if s.raiseAtEnd then (t, {}, .aborted) else
    match commitC t tx with
    | (t', _, some _) => (t', {}, .commitFailed)
    | (t', r, none) => (t', r, if tx.items.isEmpty then .empty else .committed)

end Sdc.Mdib
