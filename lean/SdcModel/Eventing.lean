/-!
# M `Eventing` — WS-Eventing subscription life-cycle of the provider

Transcription of `SubscriptionBase` / `ActionBasedSubscription` / `SubscriptionsManagerBase`
(src/sdc11073/provider/subscriptionmgr_base.py), the synchronous `BicepsSubscription` and managers
(subscriptionmgr.py) and the asynchronous ones (subscriptionmgr_async.py).

* time: one virtual clock in ticks of 10 ms (`round(…, 2)` of `remaining_seconds` is exact on that raster);
  `time.monotonic()` (`_started`) and `time.time()` (`unsubscribed_at`) advance together.
* strings (`Str`) are lists of code points; `matches` is the code's `filter_string.endswith(action)`.
* a request is dispatched by the pair (text of first reference parameter, remaining path) — `Key`;
  the path- and the reference-parameter managers are the two instances `Dispatch.path/ref` of `Cfg.mkKey`.
* part 2 of the file is the *reference monitor*: what a subscriber-side observer derives from requests,
  responses, deliveries and clock alone (no house-keeping, no internal state). The property theorems relate the two.
-/
namespace Sdc.Eventing

abbrev Str := List Nat
abbrev Key := Option Nat × Option Nat     -- (reference parameter, path suffix); ids stand for the uuid hex strings

inductive Outcome
  | ok | httpError | refused | notConnected | timeout | parseError
deriving DecidableEq, Repr

inductive Dispatch
  | path | ref
deriving DecidableEq, Repr

/-- `_mk_dispatch_identifier(reference_parameters, path_suffix)` of the subscription with uuid number `n` -/
def Dispatch.mkKey : Dispatch → Nat → Key
  | .path, n => (none, some n)      -- PathDispatching…: `path_suffix = identifier_uuid.hex`
  | .ref, n => (some n, none)       -- ReferenceParam…: `set_reference_parameter()`

structure Cfg where
  mkKey : Nat → Key
  maxDur : Nat          -- `_max_subscription_duration` (ticks)
  maxErr : Nat          -- `MAX_NOTIFY_ERRORS`
  checkDialect : Bool   -- sync managers reject a foreign filter dialect, the async ones do not look at it

/-- `now > unsubscribed_at + 1` in `_do_housekeeping` (1 s = 100 ticks) -/
def housekeepingGrace : Nat := 100

structure Sub where
  id : Nat
  notifyTo : Nat
  endTo : Option Nat
  filter : List Str
  started : Nat
  expire : Nat
  errors : Nat
  closed : Bool
  unsubAt : Option Nat
  notifyRef : Bool         -- NotifyTo came with reference parameters
  endRef : Bool            -- an EndTo endpoint was given and it has reference parameters of its own (`end_to_ref_params` non-empty)
deriving DecidableEq, Repr

structure State where
  subs : List Sub                  -- `_subscriptions.objects` (insertion order)
  now : Nat
  nextId : Nat
  modes : List (Nat × Outcome)     -- environment: what the transport does with a post to an address
deriving DecidableEq, Repr

def init : State := ⟨[], 0, 0, []⟩

def State.modeOf (st : State) (addr : Nat) : Outcome := (st.modes.lookup addr).getD .ok

/-- what the transport does with the message for subscription `sub` posted to `addr` in the current op: the
    environment may decide per delivery (`ov`; e.g. a soap client that is dead after a connection error, a
    subscriber that answers garbage), otherwise the standing mode of the address applies -/
def State.outcomeFor (st : State) (ov : List (Nat × Outcome)) (sub addr : Nat) : Outcome :=
  (ov.lookup sub).getD (st.modeOf addr)

/-- which reference parameters a posted message echoes in its WS-Addressing header -/
inductive Refs
  | none | notify | endTo
deriving DecidableEq, Repr

inductive MsgKind
  | notification (action : Str)
  | subscriptionEnd
deriving DecidableEq, Repr

/-- a message handed to the transport (`post_message_to`), with what the transport answered -/
structure Msg where
  kind : MsgKind
  sub : Nat
  addr : Nat
  outcome : Outcome
  refs : Refs
deriving DecidableEq, Repr

inductive Op
  | subscribe (notifyTo : Nat) (endTo : Option Nat) (filter : Option (List Str)) (dialectOk : Bool) (expires : Option Nat)
      (notifyRef endRef : Bool)
  | renew (k : Key) (expires : Option Nat)
  | getStatus (k : Key)
  | unsubscribe (k : Key)
  | notify (action : Str) (ov : List (Nat × Outcome))
  | tick (dt : Nat)
  | setOutcome (addr : Nat) (o : Outcome)
  | housekeeping
  | stop (sendEnd : Bool) (ov : List (Nat × Outcome))
deriving DecidableEq, Repr

inductive Out
  | subscribed (id granted : Nat)
  | rejected
  | remaining (r : Nat)
  | unsubscribed
  | fault
  | sent (msgs : List Msg)
  | done
deriving DecidableEq, Repr

/-- `renew(expires)`: `min(expires, max)` if `expires` is truthy, else `max` (absent *and* `PT0S`) -/
def grant (cfg : Cfg) : Option Nat → Nat
  | some (n + 1) => min (n + 1) cfg.maxDur
  | _ => cfg.maxDur

/-- `remaining_seconds`: `max(round(expire − (monotonic() − started), 2), 0)` -/
def Sub.remaining (s : Sub) (now : Nat) : Nat := s.expire - (now - s.started)

/-- `is_valid` -/
def Sub.valid (cfg : Cfg) (now : Nat) (s : Sub) : Bool :=
  !s.closed && decide (0 < s.remaining now) && decide (s.errors < cfg.maxErr)

/-- `ActionBasedSubscription.matches`: `any(f.endswith(action) for f in actions_filter)` -/
def suffixMatch (filter : List Str) (a : Str) : Bool := filter.any (fun f => a.isSuffixOf f)

/-- `_get_subscription_for_request`: unique-index lookup; an unsubscribed subscription is no longer addressable -/
def hit (cfg : Cfg) (k : Key) (s : Sub) : Bool := cfg.mkKey s.id == k && s.unsubAt.isNone

def State.find (cfg : Cfg) (st : State) (k : Key) : Option Sub := st.subs.find? (hit cfg k)

/-- `reference_parameters=self.notify_ref_params` of a notification -/
def Sub.notifyRefs (s : Sub) : Refs := if s.notifyRef then .notify else .none

/-- `reference_parameters=self.end_to_ref_params if self.end_to_address else self.notify_ref_params` of the SubscriptionEnd -/
def Sub.endRefs (s : Sub) : Refs :=
  if s.endTo.isSome then (if s.endRef then .endTo else .none) else s.notifyRefs

/-- `send_notification_report` / `async_send_notification_report` of one subscription selected by `matches` -/
def deliver (cfg : Cfg) (st : State) (ov : List (Nat × Outcome)) (a : Str) (s : Sub) : Sub × List Msg :=
  if suffixMatch s.filter a && s.valid cfg st.now && s.unsubAt.isNone then
    let o := st.outcomeFor ov s.id s.notifyTo
    ({ s with errors := if o = .ok then 0 else s.errors + 1 }, [⟨.notification a, s.id, s.notifyTo, o, s.notifyRefs⟩])
  else (s, [])

/-- `send_notification_end_message` as called from `_end_all_subscriptions` -/
def endMsg (cfg : Cfg) (st : State) (ov : List (Nat × Outcome)) (s : Sub) : List Msg :=
  if s.unsubAt.isNone && s.valid cfg st.now then
    let a := s.endTo.getD s.notifyTo
    [⟨.subscriptionEnd, s.id, a, st.outcomeFor ov s.id a, s.endRefs⟩]
  else []

/-- the selection of `_do_housekeeping` -/
def obsolete (cfg : Cfg) (now : Nat) (s : Sub) : Bool :=
  !s.valid cfg now || (match s.unsubAt with
    | some u => decide (u + housekeepingGrace < now)
    | none => false)

def renewed (cfg : Cfg) (now : Nat) (e : Option Nat) (s : Sub) : Sub :=
  { s with started := now, expire := grant cfg e }

def step (cfg : Cfg) (st : State) : Op → State × Out
  | .subscribe nt et filter dialectOk e nr er =>
    match filter with
    | none => (st, .rejected)
    | some f =>
      if cfg.checkDialect && !dialectOk then (st, .rejected) else
      let s : Sub := renewed cfg st.now e ⟨st.nextId, nt, et, f, 0, 0, 0, false, none, nr, et.isSome && er⟩
      ({ st with subs := st.subs ++ [s], nextId := st.nextId + 1 }, .subscribed s.id (s.remaining st.now))
  | .renew k e =>
    match st.find cfg k with
    | none => (st, .fault)
    | some s =>
      ({ st with subs := st.subs.map (fun x => if hit cfg k x then renewed cfg st.now e x else x) },
       .remaining ((renewed cfg st.now e s).remaining st.now))
  | .getStatus k =>
    match st.find cfg k with
    | none => (st, .fault)
    | some s => (st, .remaining (s.remaining st.now))
  | .unsubscribe k =>
    match st.find cfg k with
    | none => (st, .fault)
    | some _ =>
      ({ st with subs := st.subs.map (fun x => if hit cfg k x then { x with unsubAt := some st.now } else x) },
       .unsubscribed)
  | .notify a ov =>
    let r := st.subs.map (deliver cfg st ov a)
    ({ st with subs := r.map (·.1) }, .sent (r.flatMap (·.2)))
  | .tick dt => ({ st with now := st.now + dt }, .done)
  | .setOutcome addr o => ({ st with modes := (addr, o) :: st.modes }, .done)
  | .housekeeping =>
    ({ st with subs := st.subs.filter (fun s => !(obsolete cfg st.now s && !s.closed)) }, .done)
  | .stop sendEnd ov =>
    ({ st with subs := [] }, .sent (if sendEnd then st.subs.flatMap (endMsg cfg st ov) else []))

/-- run an op list, collecting the outputs -/
def run (cfg : Cfg) (st : State) : List Op → State × List Out
  | [] => (st, [])
  | op :: ops =>
    let r := step cfg st op
    let rest := run cfg r.1 ops
    (rest.1, r.2 :: rest.2)

/-! ## reference monitor (the property text, evaluated from the subscriber side) -/

/-- what is known about an accepted subscription from the outside -/
structure Rec where
  notifyTo : Nat
  endTo : Option Nat
  filter : List Str
  grantedAt : Nat       -- clock at the last Subscribe/Renew response
  granted : Nat         -- `Expires` of that response
  failures : Nat        -- failed deliveries since the last successful one
  unsub : Bool          -- an `Unsubscribe` was confirmed
  ended : Bool          -- the provider stopped
  notifyRef : Bool      -- the subscriber's NotifyTo had reference parameters
  endRef : Bool         -- it gave an EndTo endpoint with reference parameters
deriving DecidableEq, Repr

/-- the reference parameters of the subscriber's NotifyTo endpoint -/
def Rec.notifyRefs (r : Rec) : Refs := if r.notifyRef then .notify else .none

/-- what the code echoes in a SubscriptionEnd (`end_to_ref_params if end_to_address else notify_ref_params`) -/
def Rec.endRefs (r : Rec) : Refs :=
  if r.endTo.isSome then (if r.endRef then .endTo else .none) else r.notifyRefs

/-- what the property asks for: the reference parameters of the EndTo endpoint if one was given (none if it has none),
    otherwise those of NotifyTo -/
def Rec.endRefsSpec (r : Rec) : Refs :=
  match r.endTo with
  | some _ => if r.endRef then .endTo else .none
  | none => r.notifyRefs

structure Mon where
  recs : Nat → Option Rec
  now : Nat

def Mon.init : Mon := ⟨fun _ => none, 0⟩

/-- "accepted (the record exists), has not expired, has not been unsubscribed or ended, has not exceeded the
    delivery-failure limit" -/
def Rec.alive (cfg : Cfg) (now : Nat) (r : Rec) : Prop :=
  r.unsub = false ∧ r.ended = false ∧ now < r.grantedAt + r.granted ∧ r.failures < cfg.maxErr

instance (cfg : Cfg) (now : Nat) (r : Rec) : Decidable (r.alive cfg now) := by
  unfold Rec.alive; infer_instance

def Mon.alive (cfg : Cfg) (m : Mon) (i : Nat) : Prop := ∃ r, m.recs i = some r ∧ r.alive cfg m.now

/-- the monitor's update from one op and the answer it observed -/
def Mon.step (cfg : Cfg) (m : Mon) : Op → Out → Mon
  | .subscribe nt et (some f) _ _ nr er, .subscribed i g =>
    { m with recs := fun j => if j = i then some ⟨nt, et, f, m.now, g, 0, false, false, nr, et.isSome && er⟩ else m.recs j }
  | .renew k _, .remaining r =>
    { m with recs := fun j =>
        if cfg.mkKey j = k then (m.recs j).map (fun x => { x with grantedAt := m.now, granted := r }) else m.recs j }
  | .unsubscribe k, .unsubscribed =>
    { m with recs := fun j => if cfg.mkKey j = k then (m.recs j).map (fun x => { x with unsub := true }) else m.recs j }
  | .notify _ _, .sent msgs =>
    { m with recs := fun j => (m.recs j).map (fun x =>
        match msgs.find? (fun msg => msg.sub == j) with
        | some msg => { x with failures := if msg.outcome = .ok then 0 else x.failures + 1 }
        | none => x) }
  | .stop _ _, _ => { m with recs := fun j => (m.recs j).map (fun x => { x with ended := true }) }
  | .tick dt, _ => { m with now := m.now + dt }
  | _, _ => m

/-- model and monitor side by side: the monitor consumes the answers of the model -/
def runBoth (cfg : Cfg) : State × Mon → List Op → State × Mon
  | sm, [] => sm
  | (st, m), op :: ops =>
    let r := step cfg st op
    runBoth cfg (r.1, m.step cfg op r.2) ops

/-- the state reached from the initial state, together with what the observer knows -/
def reach (cfg : Cfg) (ops : List Op) : State × Mon := runBoth cfg (init, Mon.init) ops

end Sdc.Eventing
