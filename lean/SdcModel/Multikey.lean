/-!
# M1 — `sdc11073.multikey.MultiKeyLookup` (repaired tree, see known_findings/C11.json)

Transcription of `src/sdc11073/multikey.py`. Core Lean only (linked into `drv_c11`).

* Python object identity = `ObjId`; a hashable key value = `Key` (`0` is reserved for `None`, the harness interns).
* An index dict is a total function `Key → List ObjId`; "key present in the dict" ⇔ list non-empty
  (`rm_key` deletes a list that became empty, nothing else ever stores an empty list).
* `_object_ids` is `refs : ObjId → Option (List (Nat × Key))` (`none` = no entry in the defaultdict).
* `_objects` (a set) is a duplicate-free list.
* The index definitions of a table are fixed before the first object is added (as everywhere in sdc11073).
-/
namespace Sdc.Multikey

abbrev ObjId := Nat
abbrev Key := Nat

/-- the key `None` (only filed when `index_none_values=True`) -/
def noneKey : Key := 0

/-- `IndexDefinition` | `UIndexDefinition` | `IndexDefinition1n` -/
inductive IdxKind
  | multi | unique | oneN
deriving DecidableEq, Repr

structure IdxDef where
  kind : IdxKind
  indexNone : Bool
deriving DecidableEq, Repr

/-- what `_get_key_func(obj)` does for one index -/
inductive KeyRes
  /-- raises `AttributeError` / `TypeError` -/
  | attrErr
  /-- returns `None` -/
  | none
  /-- a hashable value that is not iterable (int, `QName`) -/
  | one (k : Key)
  /-- a hashable value that is iterable (str, tuple): `whole` as a key, `elems` when iterated -/
  | seq (whole : Key) (elems : List Key)
  /-- a `list` of hashable values (unhashable itself) -/
  | many (ks : List Key)
deriving DecidableEq, Repr

inductive Err
  | keyError | valueError
deriving DecidableEq, Repr

/-- outcome of the key computation in `mk_keys` of the three classes, including the exceptions
`_mk_indices` swallows for this index (`TypeError`, `AttributeError` ⇒ `skip`) -/
inductive Resolved
  | skip
  | one (k : Key)
  | many (ks : List Key)
  | error (e : Err)
deriving DecidableEq, Repr

def resolve (d : IdxDef) : KeyRes → Resolved
  | .attrErr => .skip
  | .none =>
    -- `if not self._index_none_values and key is None: return None` ⇒ the caller's comprehension raises TypeError
    if d.indexNone then
      match d.kind with
      | .oneN => .skip            -- `for k in None` ⇒ TypeError
      | _ => .one noneKey
    else .skip
  | .one k =>
    match d.kind with
    | .oneN => .skip              -- `for k in 5` ⇒ TypeError
    | _ => .one k
  | .seq w es =>
    match d.kind with
    | .oneN => .many es
    | _ => .one w
  | .many ks =>
    match d.kind with
    | .multi => .skip             -- `self[[..]]` ⇒ TypeError: unhashable
    | .unique => .error .valueError
    | .oneN => .many ks

/-- the keys under which an index files an object whose key function gives `r` (what a linear scan computes) -/
def keysOfRes (d : IdxDef) (r : KeyRes) : List Key :=
  match resolve d r with
  | .one k => [k]
  | .many ks => ks
  | _ => []

structure Table where
  objs : List ObjId
  idx  : Nat → Key → List ObjId
  refs : ObjId → Option (List (Nat × Key))

def Table.empty : Table := ⟨[], fun _ _ => [], fun _ => none⟩

/-- `self[key].append(obj)` / `self[key] = [obj]` -/
def Table.append (t : Table) (i : Nat) (k : Key) (o : ObjId) : Table :=
  { t with idx := fun i' k' => if i' = i ∧ k' = k then t.idx i' k' ++ [o] else t.idx i' k' }

/-- `rm_key`: `obj_list.remove(obj)` removes the first occurrence (`ValueError`/`KeyError` swallowed);
an empty list is deleted from the dict -/
def Table.rmKey (t : Table) (i : Nat) (k : Key) (o : ObjId) : Table :=
  { t with idx := fun i' k' => if i' = i ∧ k' = k then (t.idx i' k').erase o else t.idx i' k' }

def Table.setRefs (t : Table) (o : ObjId) (r : Option (List (Nat × Key))) : Table :=
  { t with refs := fun o' => if o' = o then r else t.refs o' }

def appendAll (t : Table) (o : ObjId) (refs : List (Nat × Key)) : Table :=
  refs.foldl (fun t ik => t.append ik.1 ik.2 o) t

def rmAll (t : Table) (o : ObjId) (refs : List (Nat × Key)) : Table :=
  refs.foldl (fun t ik => t.rmKey ik.1 ik.2 o) t

/-- `mk_keys(obj)` of index `i`. Both propagating exceptions are raised before the dict is touched. -/
def mkKeys (d : IdxDef) (t : Table) (i : Nat) (o : ObjId) (r : KeyRes) : Except Err (Table × List Key) :=
  match resolve d r with
  | .skip => .ok (t, [])
  | .error e => .error e
  | .one k =>
    if d.kind = .unique then
      if t.idx i k ≠ [] then .error .keyError      -- `if k in self: raise KeyError`
      else .ok (t.append i k o, [k])
    else .ok (t.append i k o, [k])
  | .many ks => .ok (appendAll t o (ks.map (fun k => (i, k))), ks)

def keyResAt (rs : List KeyRes) (i : Nat) : KeyRes := rs.getD i .attrErr

/-- the loop of `_mk_indices` over the index definitions `i, i+1, …` (`n` = number of remaining indices):
table after filing, the `_ObjRef`s collected, the propagating exception if any -/
def mkLoop (defs : List IdxDef) (o : ObjId) (rs : List KeyRes) : Nat → Nat → Table → Table × List (Nat × Key) × Option Err
  | 0, _, t => (t, [], none)
  | n+1, i, t =>
    match defs[i]? with
    | none => (t, [], none)
    | some d =>
      match mkKeys d t i o (keyResAt rs i) with
      | .error e => (t, [], some e)
      | .ok (t', ks) =>
        let r := mkLoop defs o rs n (i+1) t'
        (r.1, ks.map (fun k => (i, k)) ++ r.2.1, r.2.2)

/-- `_mk_indices(obj)`: on an exception everything filed so far is removed again (roll-back) -/
def mkIndices (defs : List IdxDef) (t : Table) (o : ObjId) (rs : List KeyRes) : Table × Option Err :=
  match mkLoop defs o rs defs.length 0 t with
  | (t', refs, none) => (t'.setRefs o (some ((t'.refs o).getD [] ++ refs)), none)   -- defaultdict `.extend`
  | (t', refs, some e) => (rmAll t' o refs, some e)

/-- `_rm_indices(obj)` (callers make sure the entry exists) -/
def rmIndices (t : Table) (o : ObjId) : Table :=
  (rmAll t o ((t.refs o).getD [])).setRefs o none

/-- `_add_new_object` -/
def addNew (defs : List IdxDef) (t : Table) (o : ObjId) (rs : List KeyRes) : Table × Option Err :=
  let r := mkIndices defs { t with objs := t.objs ++ [o] } o rs
  match r.2 with
  | none => r
  | some e => ({ r.1 with objs := r.1.objs.erase o }, some e)

/-- `add_object` / `add_object_no_lock` -/
def add (defs : List IdxDef) (t : Table) (o : ObjId) (rs : List KeyRes) : Table × Option Err :=
  if o ∈ t.objs then (t, none) else addNew defs t o rs

/-- `remove_object` / `remove_object_no_lock` -/
def remove (t : Table) (o : ObjId) : Table × Option Err :=
  match t.refs o with
  | none => (t, none)
  | some _ =>
    let t' := rmIndices t o
    if o ∈ t'.objs then ({ t' with objs := t'.objs.erase o }, none)
    else (t', some .keyError)                 -- `set.remove` of a non-member

/-- `update_object` / `update_object_no_lock` (`_update_indices`) -/
def update (defs : List IdxDef) (t : Table) (o : ObjId) (rs : List KeyRes) : Table × Option Err :=
  if o ∉ t.objs then (t, some .valueError) else
  match t.refs o with
  | none => (t, some .keyError)               -- `del self._object_ids[id(obj)]`
  | some old =>
    let r := mkIndices defs (rmIndices t o) o rs
    match r.2 with
    | none => r
    | some e => ((appendAll r.1 o old).setRefs o (some old), some e)   -- restore the previous entries

def clear (_t : Table) : Table := Table.empty

/-! ### lookups (`IndexDefinition.get`, `__contains__`, `get_one`) -/

def get (t : Table) (i : Nat) (k : Key) : Option (List ObjId) :=
  if t.idx i k = [] then none else some (t.idx i k)

def contains (t : Table) (i : Nat) (k : Key) : Bool := t.idx i k ≠ []

def getOne (t : Table) (i : Nat) (k : Key) (allowNone : Bool) : Except Err (Option ObjId) :=
  match t.idx i k with
  | [] => if allowNone then .ok none else .error .keyError
  | [o] => .ok (some o)
  | _ => .error .valueError

/-! ### objects with mutable attributes + the table -/

/-- `cur o` : what the key functions return for `o` *now*; `snap o` : what they returned when `o` was (re-)indexed
the last time (specification ghost); `pending o` : the attributes of `o` were written after that (ghost). -/
structure World where
  tab : Table
  cur : ObjId → List KeyRes
  snap : ObjId → List KeyRes
  pending : ObjId → Bool

def World.init : World := ⟨Table.empty, fun _ => [], fun _ => [], fun _ => false⟩

inductive Op
  | setAttrs (o : ObjId) (rs : List KeyRes)      -- attribute write on the object, the table is not told
  | add (o : ObjId)
  | remove (o : ObjId)
  | update (o : ObjId)
  | clear
  | addMany (os : List ObjId)                   -- `add_objects(_no_lock)`
  | removeMany (os : List ObjId)                -- `remove_objects(_no_lock)`
  | updateMany (os : List ObjId)                -- `update_objects(_no_lock)`
deriving Repr

def World.synced (w : World) (o : ObjId) : World :=
  { w with snap := fun o' => if o' = o then w.cur o else w.snap o',
           pending := fun o' => if o' = o then false else w.pending o' }

def stepAdd (defs : List IdxDef) (w : World) (o : ObjId) : World × Option Err :=
  if o ∈ w.tab.objs then (w, none) else
  match add defs w.tab o (w.cur o) with
  | (t, none) => ({ w with tab := t }.synced o, none)
  | (t, some e) => ({ w with tab := t }, some e)

def stepRemove (w : World) (o : ObjId) : World × Option Err :=
  let r := remove w.tab o
  ({ w with tab := r.1 }, r.2)

def stepUpdate (defs : List IdxDef) (w : World) (o : ObjId) : World × Option Err :=
  match update defs w.tab o (w.cur o) with
  | (t, none) => ({ w with tab := t }.synced o, none)
  | (t, some e) => ({ w with tab := t }, some e)

/-- plural variants: a loop over the singular operation that stops at the first exception -/
def stepMany (f : World → ObjId → World × Option Err) : World → List ObjId → World × Option Err
  | w, [] => (w, none)
  | w, o :: os =>
    match f w o with
    | (w', none) => stepMany f w' os
    | (w', some e) => (w', some e)

def step (defs : List IdxDef) (w : World) : Op → World × Option Err
  | .setAttrs o rs =>
    ({ w with cur := fun o' => if o' = o then rs else w.cur o',
              pending := fun o' => if o' = o then true else w.pending o' }, none)
  | .add o => stepAdd defs w o
  | .remove o => stepRemove w o
  | .update o => stepUpdate defs w o
  | .clear => ({ w with tab := clear w.tab }, none)
  | .addMany os => stepMany (stepAdd defs) w os
  | .removeMany os => stepMany stepRemove w os
  | .updateMany os => stepMany (stepUpdate defs) w os

/-- the caller sees the exception and carries on with the same table object -/
def run (defs : List IdxDef) (ops : List Op) : World :=
  ops.foldl (fun w op => (step defs w op).1) World.init

/-! ### what a linear scan of the stored objects computes -/

def keysOf (defs : List IdxDef) (i : Nat) (rs : List KeyRes) : List Key :=
  match defs[i]? with
  | some d => keysOfRes d (keyResAt rs i)
  | none => []

/-- all `(index, key)` pairs of an object in definition order (the content of its `_object_ids` entry) -/
def allKeysFrom (defs : List IdxDef) (rs : List KeyRes) : Nat → Nat → List (Nat × Key)
  | 0, _ => []
  | n+1, i => (keysOf defs i rs).map (fun k => (i, k)) ++ allKeysFrom defs rs n (i+1)

def allKeys (defs : List IdxDef) (rs : List KeyRes) : List (Nat × Key) := allKeysFrom defs rs defs.length 0

/-- scan of `objs` for key `k` of index `i` with the attribute values given by `attrs` (one entry per filing) -/
def scan (defs : List IdxDef) (objs : List ObjId) (attrs : ObjId → List KeyRes) (i : Nat) (k : Key) : List ObjId :=
  objs.flatMap (fun o => List.replicate ((keysOf defs i (attrs o)).count k) o)

def isUnique (defs : List IdxDef) (i : Nat) : Bool :=
  match defs[i]? with
  | some d => d.kind == .unique
  | none => false

/-! ### `add_index` on a table that already contains objects (repaired tree: all or nothing) -/

/-- replace position `n` of a key-result list (missing positions are `attrErr`) -/
def setAt : List KeyRes → Nat → KeyRes → List KeyRes
  | [], 0, v => [v]
  | [], n+1, v => .attrErr :: setAt [] n v
  | _ :: rs, 0, v => v :: rs
  | r :: rs, n+1, v => r :: setAt rs n v

/-- the loop of `add_index` over the stored objects `os` (set iteration order): files into index `n` only;
`TypeError`/`AttributeError` of an object are swallowed (`mkKeys` gives no keys), another exception stops the loop -/
def addIdxLoop (d : IdxDef) (n : Nat) (cur : ObjId → List KeyRes) : List ObjId → Table → Table × Option Err
  | [], t => (t, none)
  | o :: os, t =>
    match mkKeys d t n o (keyResAt (cur o) n) with
    | .error e => (t, some e)
    | .ok (t', _) => addIdxLoop d n cur os t'

/-- the stored objects in the iteration order `order` reported by the implementation (always a permutation of `objs`) -/
def insertByPos (order : List ObjId) (a : ObjId) : List ObjId → List ObjId
  | [] => [a]
  | b :: l => if order.idxOf a ≤ order.idxOf b then a :: b :: l else b :: insertByPos order a l

def iterOrder (objs order : List ObjId) : List ObjId :=
  match objs with
  | [] => []
  | a :: l => insertByPos order a (iterOrder l order)

/-- `add_index(name, definition)` as the index number `defs.length`. Success: the `_ObjRef`s of the new index are appended to
the `_object_ids` entries and the index is registered. Exception: `index_definition.clear()`, nothing else was touched. -/
def addIndex (defs : List IdxDef) (w : World) (d : IdxDef) (order : List ObjId) : World × Option Err :=
  let n := defs.length
  let os := iterOrder w.tab.objs order
  match addIdxLoop d n w.cur os w.tab with
  | (t, none) =>
    ({ w with
        tab := { t with refs := (fun o =>
          if o ∈ os then some ((t.refs o).getD [] ++ (keysOfRes d (keyResAt (w.cur o) n)).map (fun k => (n, k)))
          else t.refs o) }
        snap := (fun o => setAt (w.snap o) n (keyResAt (w.cur o) n)) }, none)
  | (t, some e) => ({ w with tab := { t with idx := fun i k => if i = n then [] else t.idx i k } }, some e)

/-- a table whose set of indices can grow at run time -/
structure XWorld where
  defs : List IdxDef
  w : World

inductive XOp
  | op (o : Op)
  | addIndex (d : IdxDef) (order : List ObjId)

def xstep (x : XWorld) : XOp → XWorld × Option Err
  | .op o =>
    let r := step x.defs x.w o
    ({ defs := x.defs, w := r.1 }, r.2)
  | .addIndex d order =>
    match addIndex x.defs x.w d order with
    | (w', none) => ({ defs := x.defs ++ [d], w := w' }, none)
    | (w', some e) => ({ defs := x.defs, w := w' }, some e)

def xrun (defs : List IdxDef) (ops : List XOp) : XWorld :=
  ops.foldl (fun x op => (xstep x op).1) { defs := defs, w := World.init }

end Sdc.Multikey
