-- root of the library: every model, generated instance and property file
import SdcModel.UdpRepeat
import SdcModel.Generated.UdpParams
import SdcModel.Properties.C15
