#!/bin/bash
# offline build of the Lean project (models, proofs, drivers)
set -e
cd "$(dirname "$0")/lean"
lake build 2>&1 | tail -5
