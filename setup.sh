#!/bin/bash
# offline build of the Lean project (models, proofs, property theorems, model drivers); ~12 min from clean on 16 cores
set -e -o pipefail
cd "$(dirname "$0")/lean"
lake build 2>&1 | tail -5
